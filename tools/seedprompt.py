#!/usr/bin/env python3
"""Write the task text handed to an independent sub-agent that seeds a breaking change (DESIGN.md 6, 9.5).

usage: seedprompt.py <property> <worktree-dir> <out-file>
The sub-agent gets the property record, its own scratch worktree and the NOTES of earlier seeded changes for the same
property (so that it picks a different mechanism) - nothing else from /verif.
"""
import glob
import json
import os
import sys

VERIF = os.path.dirname(os.path.dirname(os.path.abspath(__file__)))

HEAD = """You are helping test a verification effort for the open-source project graphite-project/carbon (Graphite's Carbon daemons: Twisted services that receive metrics over line/pickle protocols, relay via consistent hashing, aggregate, cache in memory and write to Whisper/Ceres).

You have your own scratch git worktree of the repository at {wt} (work ONLY there; never touch /repo or /verif, and do not read anything under /verif or any other /tmp/wt/* directory). Python: /venv/bin/python (3.12, Twisted installed). To import the worktree's code use PYTHONPATH={wt}/lib. Note: the libraries whisper, ceres, mmh3, google.protobuf are NOT installed (carbon.database only defines WhisperDatabase/CeresDatabase if a stand-in module named whisper/ceres is put in sys.modules before it is imported); `import carbon.service` needs `sys.modules['carbon.amqp_listener'] = None` set first (a py2-only optional plugin otherwise raises SyntaxError). There is no network. IMPORTANT: other agents work in sibling worktrees of the same repository: NEVER use `git stash` (the stash is shared between worktrees). To test the unchanged code do: `git diff -- lib > patch.diff; git checkout -- lib; <run>; git apply patch.diff`.

Here is a semantic property of carbon that should always hold (JSON record):

{record}

(Line numbers in the record may be slightly off; the code has had small bug fixes since it was written.)

YOUR TASK: produce ONE realistic change (a plausible refactoring slip, optimisation, clean-up, feature tweak or bug-fix gone wrong - the kind of change that could pass code review) to the carbon source in your worktree that BREAKS this property, while
  (a) the code still imports/compiles, and
  (b) the repository's existing test suite still passes exactly as before: run `cd {wt} && /venv/bin/python -m pytest -q -p no:cacheprovider --timeout=900 --continue-on-collection-errors lib/carbon/tests` - on the unchanged tree it reports `2 failed, 179 passed, ... 5 errors` (those failures/errors are pre-existing, caused by missing optional libraries); with your change it must report the same 179 passed and the same pre-existing failures.

The breakage must need something SPECIFIC to manifest - a particular interleaving of two threads, a crash or fault at a particular point, a multi-step sequence of operations, an unusual input, a particular configuration value, or two cooperating code sites that each look fine alone - NOT something that ordinary use or a trivial smoke test would expose at once. Prefer subtle over blatant. Do not just delete the mechanism wholesale.
"""

PREV = """
{n} previous participants already produced the following changes for this property; yours must use a DIFFERENT mechanism from all of them, touch a different part of the behaviour the property describes (read the statement clause by clause and the whole quantifier, and pick a clause, input class, configuration or code path none of them used - including code outside the anchored files that the property's behaviour passes through), and need a different trigger:
"""

HARD = """
The people whose checks you are testing drive the real code with generated inputs (random and small-exhaustive), generated
thread schedules and injected faults, and compare with small reference models. Choose a trigger that such generic
generation is unlikely to produce by accident: a setting that is rarely varied (look through conf.py's defaults and the
example configuration for options that interact with this behaviour), the interaction of two features that are each fine
alone, a long or oddly ordered multi-step history, a specific magnitude or boundary value, a second entry point into the
same behaviour (another listener, another router, another caller), or an effect that only shows in a secondary observation
(a counter, an event, what a later operation sees) while the primary result stays right.
"""

TAIL = """
Also write a DEMONSTRATION: a small standalone Python program (or unittest) {wt}/demo_{pid}.py that, run as `PYTHONPATH={wt}/lib /venv/bin/python {wt}/demo_{pid}.py`, exits non-zero (fails) WITH your change and exits 0 (passes) on the unchanged code. It must be deterministic (for thread interleavings, force the schedule with events/hooks/monkeypatching inside the demo rather than relying on luck), must not depend on its own file location (it will be copied elsewhere and run with PYTHONPATH pointing at another checkout), and finish within 60 seconds. Verify both directions yourself.

DELIVERABLES (leave them in {wt}/): patch.diff (output of `git diff -- lib` containing ONLY your change to the carbon sources, applying cleanly with `git apply` to the unchanged tree), demo_{pid}.py, and NOTES.md (3-10 lines: what the change is, why it looks innocent, what exactly is needed for the breakage to manifest, what you ran). Leave the worktree with the change APPLIED. Do not commit. In your final answer, summarise the change, what it needs to manifest, and the test-suite and demo results you observed in both directions.
"""


def main():
  pid, wt, out = sys.argv[1:4]
  rec = None
  for line in open(os.path.join(VERIF, 'properties.jsonl')):
    d = json.loads(line)
    if d['id'] == pid:
      rec = d
  text = HEAD.format(wt=wt, record=json.dumps(rec, indent=1))
  prev = sorted(glob.glob(os.path.join(VERIF, 'seeded', pid + '-s*', 'NOTES.md')))
  if prev:
    text += PREV.format(n=len(prev))
    for p in prev:
      text += '--- previous change %s ---\n%s\n' % (os.path.basename(os.path.dirname(p)).split('-')[1], open(p).read().strip())
  if len(prev) >= 4:
    text += HARD
  text += TAIL.format(wt=wt, pid=pid)
  open(out, 'w').write(text)


if __name__ == '__main__':
  main()
