#!/usr/bin/env python3
"""Import, confirm and evaluate a seeded breaking change produced by an independent sub-agent.

usage: seedrun.py <property> <source-dir> <seed-name> [--checks C02,C10] [--tier quick]

1. copies patch.diff / demo / NOTES.md from <source-dir> to /verif/seeded/<seed-name>/
2. confirms in a scratch worktree: patch applies, the 179 baseline tests still pass, the demo fails with the change
   and passes without it
3. applies the patch to /repo, runs the named checks, and undoes it straight afterwards (git checkout -- .)
4. writes meta.json
"""
import argparse
import glob
import json
import os
import shutil
import subprocess
import sys
import tempfile

VERIF = os.path.dirname(os.path.dirname(os.path.abspath(__file__)))
TESTS = ('/venv/bin/python -m pytest -q -p no:cacheprovider --timeout=900 --continue-on-collection-errors lib/carbon/tests '
         '2>&1 | grep -E "passed|failed" | tail -1')


def sh(cmd, cwd=None, env=None, timeout=3000):
  p = subprocess.run(cmd, shell=True, cwd=cwd, env=env, capture_output=True, text=True, timeout=timeout)
  return p.returncode, (p.stdout + p.stderr)


def main():
  ap = argparse.ArgumentParser()
  ap.add_argument('prop')
  ap.add_argument('src')
  ap.add_argument('name')
  ap.add_argument('--checks')
  ap.add_argument('--tier', default='quick')
  ap.add_argument('--needs', default='')
  ap.add_argument('--scratch', action='store_true', help='evaluate against a scratch copy (VERIF_REPO) instead of patching /repo in place')
  ap.add_argument('--no-confirm', action='store_true', help='skip the confirmation in a scratch worktree (re-evaluation of an already confirmed change)')
  a = ap.parse_args()
  dst = os.path.join(VERIF, 'seeded', a.name)
  os.makedirs(dst, exist_ok=True)
  if os.path.abspath(a.src) != os.path.abspath(dst):
    for f in ['patch.diff', 'NOTES.md'] + [os.path.basename(x) for x in glob.glob(os.path.join(a.src, 'demo_*.py'))]:
      if os.path.exists(os.path.join(a.src, f)):
        shutil.copy(os.path.join(a.src, f), os.path.join(dst, f))
  demo = sorted(glob.glob(os.path.join(dst, 'demo_*.py')))[0]
  patch = os.path.join(dst, 'patch.diff')
  meta = dict(property=a.prop, name=a.name, needs=a.needs, ran=[])

  if a.no_confirm and os.path.exists(os.path.join(dst, 'meta.json')):
    old = json.load(open(os.path.join(dst, 'meta.json')))
    for k in ('demo_unchanged_rc', 'patch_applies', 'tests_with_change', 'demo_with_change_rc', 'confirmed', 'assessment'):
      if k in old:
        meta[k] = old[k]
    meta['ran'] = [x for x in old.get('ran', []) if str(x).startswith('scratch worktree')]
    return evaluate(a, dst, patch, meta)
  # ---- confirmation in a scratch worktree
  wt = tempfile.mkdtemp(prefix='seedwt-')
  os.rmdir(wt)
  rc, out = sh('git -C /repo worktree add -q --detach %s HEAD' % wt)
  try:
    env = dict(os.environ, PYTHONPATH=os.path.join(wt, 'lib'))
    # the demo refers to its original worktree path in sys.path handling only via PYTHONPATH; run a copy inside the scratch tree
    shutil.copy(demo, os.path.join(wt, os.path.basename(demo)))
    rc0, out0 = sh('/venv/bin/python %s' % os.path.basename(demo), cwd=wt, env=env, timeout=300)
    meta['demo_unchanged_rc'] = rc0
    rca, outa = sh('git apply %s' % patch, cwd=wt)
    meta['patch_applies'] = (rca == 0)
    _, t1 = sh(TESTS, cwd=wt)
    meta['tests_with_change'] = t1.strip()
    rc1, out1 = sh('/venv/bin/python %s' % os.path.basename(demo), cwd=wt, env=env, timeout=300)
    meta['demo_with_change_rc'] = rc1
    meta['confirmed'] = bool(rca == 0 and '179 passed' in t1 and rc0 == 0 and rc1 != 0)
    meta['ran'].append('scratch worktree: demo unchanged rc=%d, git apply rc=%d, tests "%s", demo with change rc=%d' % (rc0, rca, t1.strip(), rc1))
  finally:
    sh('git -C /repo worktree remove --force %s' % wt)
  print('confirmation:', json.dumps({k: meta[k] for k in ('patch_applies', 'tests_with_change', 'demo_unchanged_rc', 'demo_with_change_rc', 'confirmed')}))

  evaluate(a, dst, patch, meta)


def evaluate(a, dst, patch, meta):
  # ---- our checks against the change applied to /repo
  checks = (a.checks or a.prop).split(',')
  results = {}
  env2 = dict(os.environ)
  scratch = None
  if a.scratch:
    scratch = tempfile.mkdtemp(prefix='seedrepo-')
    sh('rsync -a --exclude .git /repo/ %s/' % scratch)
    rc, out = sh('git apply --directory=%s --unsafe-paths %s' % (scratch, patch), cwd='/')
    if rc != 0:
      rc, out = sh('patch -p1 -d %s < %s' % (scratch, patch))
    env2['VERIF_REPO'] = scratch
  else:
    rc, out = sh('git -C /repo status --porcelain')
    if out.strip():
      print('REFUSING: /repo has local modifications:\n' + out)
      sys.exit(2)
    rc, out = sh('git -C /repo apply %s' % patch)
  try:
    for c in checks:
      ev = os.path.join(VERIF, 'evidence', '%s.json' % c)
      bak = open(ev).read() if os.path.exists(ev) else None
      rc, out = sh('/venv/bin/python run.py %s --tier %s' % (c, a.tier), cwd=VERIF, timeout=6000, env=env2)
      lines = [l for l in out.splitlines() if l.startswith(('VIOLATION', '  detail', 'INCONCLUSIVE', 'KNOWN-FINDING'))]
      results[c] = dict(rc=rc, verdict={0: 'MISSED', 1: 'CAUGHT', 2: 'INCONCLUSIVE'}.get(rc, 'ERROR'), lines=[l[:400] for l in lines[:6]])
      print('check %s (%s): %s' % (c, a.tier, results[c]['verdict']))
      for l in lines[:4]:
        print('   ' + l[:300])
      if bak is not None:       # evidence must describe the unchanged tree: restore
        open(ev, 'w').write(bak)
  finally:
    if scratch:
      shutil.rmtree(scratch, ignore_errors=True)
    else:
      sh('git -C /repo checkout -- .')
  meta['checks'] = results
  meta['tier'] = a.tier
  meta['ran'].append(('scratch copy of /repo + patch.diff via VERIF_REPO; run.py <check> --tier %s' if a.scratch else 'git -C /repo apply patch.diff; run.py <check> --tier %s; git -C /repo checkout -- .') % a.tier)
  mp = os.path.join(dst, 'meta.json')
  old = {}
  if os.path.exists(mp):
    old = json.load(open(mp))
    old_checks = old.get('checks_history', [])
  else:
    old_checks = []
  old_checks.append(dict(tier=a.tier, results=results))
  meta['checks_history'] = old_checks
  if not meta['needs'] and old.get('needs'):
    meta['needs'] = old['needs']
  if old.get('assessment') and not meta.get('assessment'):
    meta['assessment'] = old['assessment']
  json.dump(meta, open(mp, 'w'), indent=1)


if __name__ == '__main__':
  main()
