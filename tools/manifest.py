#!/usr/bin/env python3
"""Regenerates /verif/MANIFEST.json from the table below (kept here so the manifest is always valid)."""
import json
import os
import subprocess

HERE = os.path.dirname(os.path.dirname(os.path.abspath(__file__)))

# id -> (category, technique, level text, level note, design ref)
CLAIMED = {
  'C05': ('exploration', 'structural oracle on executed getDestinations() over all 65536 ring positions',
          'Executes the real routers for every ring position (one key per position) and random names, twice each, for '
          'generated destination sets x RF x DIVERSE_REPLICAS x hash type x router class, and checks length, '
          'distinctness, membership, server diversity and stability. Exhaustive in the key space of the ring per '
          'cell, sampled over cells.',
          'Trusts the key table (own hash implementation) only for coverage, measured with the real position function; '
          'mmh3_ch not runnable; <=8 destinations, RF<=4.', 'DESIGN.md 3/C05'),
  'C06': ('exploration', 'before/after and differential oracle over all 65536 ring positions executed on the real ring',
          'Executes membership histories (all toggle histories <=3 over 3-node lists, DYNAMIC_ROUTER down/up patterns, random '
          'histories <=6 over <=8 nodes incl. colliding ones) on the real router; after each operation sweeps get_nodes() over '
          'one key per ring position and checks minimal disruption, equality with a reference ring written from the published '
          'algorithm, and equality with a freshly built router. Known finding C06-a (collision bumps are history dependent) is '
          'recognised by mechanism.',
          'Reference ring in vlib/refs/ring.py is trusted as the published algorithm; mmh3_ch not runnable.', 'DESIGN.md 3/C06'),
  'C14': ('exploration', 'realpath containment oracle on executed path functions and real file creation in a scratch tree',
          'All strings <= L over an 8-symbol hostile alphabet (L=4/5), classic traversal names and random long names are passed '
          'to the real WhisperDatabase/CeresDatabase.getFilesystemPath (both TAG_HASH_FILENAMES values); a subset is really '
          'created via database.create() and the scratch tree is walked for anything outside the data dir; determinism and '
          'injectivity over well-formed names are checked.',
          'whisper/ceres libraries are absent: stand-ins record file-system effects; the Ceres node->file step is reproduced '
          'from upstream.', 'DESIGN.md 3/C14'),
  'C18': ('exploration', 'metamorphic oracle (permutations x two syntaxes x re-normalisation) on executed TaggedSeries.parse and processors',
          'Generates (name, tag set) over the reserved-character alphabet, spells every permutation in both syntaxes, '
          'normalises with the real parser and requires agreement, idempotence, exact tag content, and raw fallback through '
          'the real CacheFeedingProcessor/RelayProcessor. Exhaustive for small sizes, random beyond.',
          'Accepted spellings are compared; the parser may reject more than the documented tag rules.', 'DESIGN.md 3/C18'),
  'C13': ('exploration', 'audit hook + canary objects + result-type walker around the real pickle-speaking protocols',
          'Feeds hand-assembled opcode programs (every route to a global, protocols 0-5, nested to depth 5, after valid '
          'frames) and an exhaustive GLOBAL/STACK_GLOBAL lookup sweep over every (module, attribute) of the booted process to '
          'the real MetricPickleReceiver and CacheManagementHandler; violations are audit events (import of a referenced '
          'module, pickle.find_class, process creation), a canary firing, new modules, or a non-plain unpickling result. '
          'The insecure unpickler is run once to prove the monitors fire.',
          'Allow-list hard-coded in the check; lookup sweep is lookup-only.', 'DESIGN.md 3/C13'),
  'C01': ('exploration', 'differential recorder-vs-generated-sequence oracle under exhaustive single-cut segmentation of executed streams',
          'Generated datapoint sequences (non-ASCII names, every float() spelling, ints, +-inf, batching into lines / datagrams / '
          'pickle frames of protocols 0-5) are encoded by an independent encoder and fed to fresh real listener protocols whole, '
          'byte-at-a-time, at every single cut position, at every cut pair (short streams) and at random k-cuts; the recorder on '
          'events.metricReceived must equal the generated sequence with bit-identical values.',
          'protobuf listener not runnable; integers compared after float().', 'DESIGN.md 3/C01'),
  'C11': ('exploration', 'escape monitor + disconnect monitor + by-construction expectation cross-checked with a reference decoder',
          'Streams interleaving uniquely named well-formed items with a malformed zoo (invalid UTF-8, field counts, non-finite '
          'numbers, truncated/garbage pickles, wrong shapes/types, random opcode programs, deep nesting, over-limit frames) and '
          'byte-level mutations of valid streams are fed to the real line/UDP/pickle protocols under whole / bytewise / every '
          'single cut / random cuts; any exception leaving dataReceived/datagramReceived, any disconnect without an over-long '
          'frame, any lost/altered neighbour or accepted malformed item is a violation.',
          'Items whose acceptance the statement leaves open are declared unspecified (either outcome, no exception).', 'DESIGN.md 3/C11'),
  'C12': ('exploration', 'differential against a 15-line admission model on the real listeners with generated list files',
          'Generated whitelist/blacklist files (comments, blanks, invalid regexes) are loaded through the real RegexList reload '
          'path, batches with NaN/inf values, -1/fractional/negative timestamps are sent through line, UDP and pickle listeners '
          'for MIN_TIMESTAMP_RESOLUTION 0/1/10/60 on a virtual clock; recorder and blacklist/whitelist counters must equal the model.',
          'Negative timestamps other than -1 are unspecified.', 'DESIGN.md 3/C12'),
  'C15': ('exploration', 'round-trip oracle: real client protocol bytes fed into the real listener protocol',
          'Queues of uniquely named datapoints (random 64-bit doubles, boundary magnitudes, ints, bools, +-inf, fractional '
          'timestamps) are sent by the real CarbonClientFactory/line+pickle client protocols on a fake reactor for batch sizes '
          '1,2,3,7,500 and the produced bytes (also re-segmented) are ingested by the real listeners; names, order, count, '
          'timestamps and values are compared per the statement (exact arithmetic for the line tolerance).',
          'protobuf pair not runnable.', 'DESIGN.md 3/C15'),
  'C16': ('exploration', 'differential against evaluators written from the documented rule-file formats',
          'Generated relay-rules.conf files (patterns, continue spellings, default placement, decoys, destination subsets) and '
          'aggregation-rules.conf files (literals, *, <field>, <<field>>) are loaded by the real routers / RuleManager; '
          'set(getDestinations(name)) is compared with an independent evaluator (own INI reader, own backtracking pattern '
          'matcher, reference ring) for names that hit, miss and nearly miss; inputs of one aggregate must share destinations.',
          'Aggregation literals restricted to [a-z0-9_-]; regex semantics of Python re trusted.', 'DESIGN.md 3/C16'),
  'C19': ('exploration', 'recorded database.create() arguments vs independent first-match evaluator and retention parser',
          'Generated storage-schemas.conf / storage-aggregation.conf (missing keys, every unit suffix, multi-archive retentions, '
          'overlapping patterns; every order of section sets <=4) are reloaded by the daemon\'s own reload functions; metrics '
          'matching 0/1/many sections are stored and one real writeCachedDataPoints() pass runs against the in-memory backend; '
          'recorded create() arguments must equal the evaluator; files get arbitrary mtimes before reloads. reload-race mode: the writer '
          'creates metrics under the controlled scheduler while the reactor thread rewrites the files and reloads - every create must '
          'match the old or the new file.',
          'Invalid retention strings not generated (daemon exits).', 'DESIGN.md 3/C19'),
  'C20': ('exploration', 'all-pairs window oracle over the grant log of the real TokenBucket / writer on a virtual clock',
          'Histories of blocking / non-blocking acquisitions, clock advances (0 .. 1e6) and limit changes run on the real '
          'TokenBucket with time/sleep doubled; every pair of grants in a regime is checked against rate*w + 2*burst and every '
          'blocking wait against deficit/rate. Writer level: real writeCachedDataPoints() with module-level buckets rebuilt by '
          'carbon\'s own code, incl. shutdownModifyUpdateSpeed(); same oracle on create()/write() call times. sched mode: the real writer '
          'loop and the limit change at shutdown run as two threads under the controlled scheduler with util.py traced.',
          'Virtual clock; float tolerance 1e-6 plus clock resolution.', 'DESIGN.md 3/C20'),
  'C02': ('exploration', 'history + per-key sequential accounting over unique values, executed under a controlled thread scheduler',
          'Receiver and writer run as real threads over the real _MetricCache and CacheManagementHandler; a baton scheduler with '
          'a scheduling point at every source line of cache.py/events.py executes baseline, mirrored, every 1-preemption, '
          '2-preemption (strided), seeded random and PCT schedules of generated store/query/drain histories for all six '
          'strategies. Oracle: exactly-once and last-write-wins per (metric, timestamp) from call/return events, sorted batches, '
          'query consistency, size == sum(len) at every lock-free scheduling point.',
          'Line-granularity preemption of two threads; bounded preemptions then random; virtual clock.', 'DESIGN.md 3/C02'),
  'C10': ('exploration', 'invariant at every scheduling point + refusal snapshots under a controlled thread scheduler',
          'MAX_CACHE_SIZE 1..6,20,40 x flow control x strategies booted through carbon\'s own option parsing; histories that burst '
          'against the limit run under 1-preemption-exhaustive and random schedules; size <= ceil(hard max) is asserted at every '
          'scheduling point, every undisturbed store is snapshotted before/after (refusal changes nothing, cached-timestamp update '
          'accepted, new datapoint refused iff at the limit), overflow signals are matched with the cache.overflow counter and '
          'the C02 accounting.',
          'Fractional limits read as ceil(limit).', 'DESIGN.md 3/C10'),
  'C17': ('exploration', 'drain-sequence oracle (pass partition, maximum, lag, emptiness) under a controlled thread scheduler',
          'Six strategies x lag 0/30 x bounded/unbounded cache; store/drain histories run under 1-preemption-exhaustive, '
          '2-preemption (short histories) and random schedules with snapshots taken when the drain takes the cache lock; '
          'violations: any exception from store/drain_metric, (metric, []) while others hold data, datapoints left after input '
          'stops, no valid pass partition (starvation), drained metric not the maximum, lag not respected.',
          'Lag clause checked for timesorted only (documented); any valid pass partition accepted.', 'DESIGN.md 3/C17'),
  'C03': ('fault_enumeration', 'exactly-once matching of drained batches, backend call log and counters under enumerated fault plans and controlled schedules',
          'The real writeForever() loop runs on a writer thread against an in-memory TimeSeriesDatabase plugin; every fault plan '
          'with <= k raising calls among the first n backend calls (n=8,k=2 quick; n=12,k=3 thorough; rotating exception types) '
          'plus random longer plans is executed under baseline, mirrored, preempted and random schedules, for all strategies and '
          'create/update rate limits on a virtual clock. Each drained batch must map to exactly one successful write of its own '
          'points, a droppedCreates increment or an errors increment / error log; counters must equal the backend log.',
          'In-memory backend; tag queue not checked.', 'DESIGN.md 3/C03'),
  'C04': ('exploration', 'end-state conservation at writer-thread exit with the stop placed at every scheduling point',
          'Workloads ending in the stop (delivered in Twisted\'s order: before-shutdown trigger, running=False, join) run with the '
          'real writeForever() under every single-preemption schedule (the stop lands between any two writer line steps incl. the '
          'idle sleep), sampled second preemptions and random schedules, for strategies x MIN_TIMESTAMP_LAG x update/create '
          'limits x MAX_UPDATES_PER_SECOND_ON_SHUTDOWN; at writer exit no datapoint accepted before the stop may still be cached.',
          'Non-failing backend; virtual clock.', 'DESIGN.md 3/C04'),
  'C07': ('exploration', 'per-destination queue history with unique ids decoded from transport bytes, checked after every event on a fake reactor',
          'Real CarbonClientManager / factories / client protocols / RelayProcessor wired by carbon\'s own setupRelayProcessor run on '
          'a fake reactor; all applicable event sequences up to length L after several prefixes (one destination) and seeded random '
          'sequences of 30-200 events (1-3 destinations; batch sizes, dynamic router, line/pickle, constant/consistent-hashing RF '
          '1-2) are executed; acceptances are recorded at factory.sendDatapoint, re-routing at destinationDown and the fake '
          'factory, bytes decoded from every StringTransport; no duplicate, order, conservation, bound, drop accounting, sent '
          'counter and close-only-when-empty are asserted after every event; transports pause their producer from inside write() like '
          'Twisted\'s FileDescriptor; every sequence ends with a quiescence epilogue after which every queue must be empty.',
          'Fake reactor delivers life-cycle events in Twisted\'s order; post-stop buffer handling unchecked.', 'DESIGN.md 3/C07, 9'),
  'C09': ('exploration', 'bounded-progress oracle at quiescence: controlled thread schedules (cache) and event sequences (relay)',
          'Cache side: real MetricLineReceivers (incl. clients connecting / disconnecting mid-run) feed chunks through carbon\'s own '
          'pipeline while the real writeForever() drains, under every 1-preemption, sampled 2-preemption, random and '
          'event-dispatch-targeted schedules for MAX_CACHE_SIZE 1..6; at the end no receiver may be paused while the cache is below '
          'its low watermark. Relay side: the C07 sequences plus a directed family (fill one destination until the pause, lose it '
          'under the dynamic router) followed by two quiescence epilogues (all up / lost destinations stay down); receivers incl. '
          'one connected while paused must be resumed. A cache daemon relaying its own metrics (RELAY_CACHE_METRICS, dynamic router, '
          'no destination) is included: the resume event re-injects the relay buffer from inside the dispatch (deadlock = violation).',
          'Liveness restated as a check at quiescence; C09-d (unsynchronised event dispatch vs. disconnect) is a known finding.', 'DESIGN.md 3/C09'),
  'C08': ('exploration', 'shadow model per (aggregate, interval) with an independent pattern matcher, on a virtual clock through the real pipeline',
          'The real aggregator pipeline (rewrite:pre, aggregate, rewrite:post, relay sink) runs with LoopingCalls on a virtual clock; '
          'all event sequences up to length L over a 9-event alphabet (arrive in-order / late / far-past / self-named, advance), a '
          'replay/backfill family across flush ticks and '
          'random streams over generated rule sets (all 12 methods, <field>, <<field>>, *) are executed for MAX_AGGREGATION_INTERVALS '
          '1/2/5 x WRITE_BACK_FREQUENCY None/1/7 x name cache off/LRU/TTL x FORWARD_ALL; every emission is checked for alignment, '
          'new input and value (f over all values within the horizon, over a suffix containing the new ones after a permissible '
          'expiry); buffered intervals <= MAX+2 after flushes; idle series released; pass-through exactly once / never.',
          'Expiry over-approximated in favour of the code; two rules never share an aggregate name.', 'DESIGN.md 3/C08'),
}

NOT_YET = 'check not built yet (work in progress; see DESIGN.md)'


def main():
  props = [json.loads(l) for l in open(os.path.join(HERE, 'properties.jsonl'))]
  try:
    commits = subprocess.run(['git', '-C', '/repo', 'log', '--format=%H %s'], capture_output=True, text=True).stdout.splitlines()
  except Exception:
    commits = []
  hook_commits = [c.split()[0] for c in commits if ' hook:' in c or c.split(' ', 1)[1].startswith('hook:')]
  checks = []
  na = []
  for p in props:
    pid = p['id']
    if pid in CLAIMED:
      cat, tech, text, note, ref = CLAIMED[pid]
      checks.append(dict(
        property_id=pid,
        quick_cmd='/venv/bin/python run.py %s --tier quick' % pid,
        thorough_cmd='/venv/bin/python run.py %s --tier thorough' % pid,
        evidence_file='/verif/evidence/%s.json' % pid,
        replay_cmd_template='/venv/bin/python run.py %s --replay {path}' % pid,
        engine='run.py',
        level_claimed=dict(category=cat, text=text, design_ref=ref),
        level_note=note,
        technique=tech))
    else:
      na.append(dict(property_id=pid, reason=NOT_YET))
  m = dict(
    version=1,
    setup_cmd='/venv/bin/python -m vlib.setup',
    hooks=dict(guard='CARBON_VERIF',
               enable='checks run /repo/lib from the working tree via PYTHONPATH with CARBON_VERIF=1 in the worker environment; '
                      'no build step',
               baseline_off_cmd='cd /repo && env -u CARBON_VERIF /venv/bin/python -m pytest -q -p no:cacheprovider --timeout=900 '
                                '--continue-on-collection-errors lib/carbon/tests',
               source_commits=hook_commits, add_only=True),
    engines=[dict(name='run.py', path='/verif/run.py', serves_properties=sorted(CLAIMED),
                  kind_free_text='runtime monitoring: one subprocess per configuration executing the real carbon code under '
                                 'recorders, reference oracles, a controlled thread scheduler and a virtual clock')],
    checks=checks,
    notes='Runtime monitoring only. Exit 0 held / 1 violated (VIOLATION line) / 2 inconclusive (INCONCLUSIVE line). '
          'Known findings: /verif/known_findings.json.',
    not_applicable=na)
  with open(os.path.join(HERE, 'MANIFEST.json'), 'w') as f:
    json.dump(m, f, indent=1)
  print('claimed', len(checks), 'not_applicable', len(na))


if __name__ == '__main__':
  main()
