#!/usr/bin/env python3
"""Regenerates /verif/MANIFEST.json from the table below (kept here so the manifest is always valid)."""
import json
import os
import subprocess

HERE = os.path.dirname(os.path.dirname(os.path.abspath(__file__)))

# id -> (category, technique, level text, level note, design ref)
CLAIMED = {
  'C05': ('exploration', 'structural oracle on executed getDestinations() over all 65536 ring positions',
          'Executes the real routers for every ring position (one key per position) and random names, twice each, for '
          'generated destination sets x RF x DIVERSE_REPLICAS x hash type x router class, and checks length, '
          'distinctness, membership, server diversity and stability. Exhaustive in the key space of the ring per '
          'cell, sampled over cells.',
          'Trusts the key table (own hash implementation) only for coverage, measured with the real position function; '
          'mmh3_ch not runnable; <=8 destinations, RF<=4.', 'DESIGN.md 3/C05'),
}

NOT_YET = 'check not built yet (work in progress; see DESIGN.md)'


def main():
  props = [json.loads(l) for l in open(os.path.join(HERE, 'properties.jsonl'))]
  try:
    commits = subprocess.run(['git', '-C', '/repo', 'log', '--format=%H %s'], capture_output=True, text=True).stdout.splitlines()
  except Exception:
    commits = []
  hook_commits = [c.split()[0] for c in commits if ' hook:' in c or c.split(' ', 1)[1].startswith('hook:')]
  checks = []
  na = []
  for p in props:
    pid = p['id']
    if pid in CLAIMED:
      cat, tech, text, note, ref = CLAIMED[pid]
      checks.append(dict(
        property_id=pid,
        quick_cmd='/venv/bin/python run.py %s --tier quick' % pid,
        thorough_cmd='/venv/bin/python run.py %s --tier thorough' % pid,
        evidence_file='/verif/evidence/%s.json' % pid,
        replay_cmd_template='/venv/bin/python run.py %s --replay {path}' % pid,
        engine='run.py',
        level_claimed=dict(category=cat, text=text, design_ref=ref),
        level_note=note,
        technique=tech))
    else:
      na.append(dict(property_id=pid, reason=NOT_YET))
  m = dict(
    version=1,
    setup_cmd='/venv/bin/python -m vlib.setup',
    hooks=dict(guard='CARBON_VERIF',
               enable='checks run /repo/lib from the working tree via PYTHONPATH with CARBON_VERIF=1 in the worker environment; '
                      'no build step',
               baseline_off_cmd='cd /repo && env -u CARBON_VERIF /venv/bin/python -m pytest -q -p no:cacheprovider --timeout=900 '
                                '--continue-on-collection-errors lib/carbon/tests',
               source_commits=hook_commits, add_only=True),
    engines=[dict(name='run.py', path='/verif/run.py', serves_properties=sorted(CLAIMED),
                  kind_free_text='runtime monitoring: one subprocess per configuration executing the real carbon code under '
                                 'recorders, reference oracles, a controlled thread scheduler and a virtual clock')],
    checks=checks,
    notes='Runtime monitoring only. Exit 0 held / 1 violated (VIOLATION line) / 2 inconclusive (INCONCLUSIVE line). '
          'Known findings: /verif/known_findings.json.',
    not_applicable=na)
  with open(os.path.join(HERE, 'MANIFEST.json'), 'w') as f:
    json.dump(m, f, indent=1)
  print('claimed', len(checks), 'not_applicable', len(na))


if __name__ == '__main__':
  main()
