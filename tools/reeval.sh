#!/bin/bash
# Re-evaluate every seeded change with its property's quick check against a scratch copy (never touches /repo).
# usage: tools/reeval.sh [seed-name-glob]   -> /verif/seeded/REEVAL.txt
cd "$(dirname "$0")/.."
out=seeded/REEVAL.txt
: > $out
for d in seeded/${1:-C*}; do
  [ -d "$d" ] || continue
  name=$(basename $d)
  prop=${name%%-*}
  v=$(python3 tools/seedrun.py $prop $d $name --scratch --no-confirm 2>&1 | grep "^check" | tr '\n' ' ')
  echo "$name $v" >> $out
done
echo done >> $out
