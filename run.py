#!/usr/bin/env python3
"""Entry point:  run.py <Cxx|all> [--tier quick|thorough] [--replay F] [--jobs N] [--only substr]"""
import argparse
import os
import sys

HERE = os.path.dirname(os.path.abspath(__file__))
sys.path.insert(0, HERE)


def main():
  ap = argparse.ArgumentParser()
  ap.add_argument('prop')
  ap.add_argument('--tier', default=os.environ.get('VERIF_TIER', 'quick'), choices=['quick', 'thorough'])
  ap.add_argument('--replay')
  ap.add_argument('--jobs', type=int)
  ap.add_argument('--only')
  a = ap.parse_args()
  seed = int(os.environ.get('VERIF_SEED', '0') or 0)
  from vlib import verdict, setup
  setup.ensure_deps()
  props = sorted(verdict.CHECKS) if a.prop == 'all' else [a.prop]
  worst = 0
  for p in props:
    rc = verdict.run_property(p, a.tier, seed, jobs=a.jobs, replay=a.replay, only=a.only)
    worst = max(worst, rc) if rc != 1 and worst != 1 else 1
  sys.exit(worst)


if __name__ == '__main__':
  main()
