"""Controlled scheduler (DESIGN.md 2.2).

Real `threading.Thread`s run the real carbon functions; a baton serialises them.  A `sys.settrace`
line tracer restricted to selected files under /repo/lib/carbon turns every source line into a
scheduling point at which a *policy* decides who runs next.  `SchedLock` stands in for
`cache.lock` (instance attribute) so that a preempted lock holder cannot deadlock the run, and
`VTime` is a virtual clock whose `sleep` parks the caller.

A schedule is fully described by its *deviations*: {decision_no: k} meaning "at the decision_no-th
decision with more than one option, take the k-th alternative instead of the default".  Defaults
are deterministic, hence every run is replayable from its deviation map.
"""
import os
import sys
import threading


class Abort(BaseException):
  """Unwinds a scheduled thread when the run is abandoned."""


class Deadlock(Exception):
  pass


class StepLimit(Exception):
  pass


class SThread(object):
  __slots__ = ('name', 'fn', 'idx', 'state', 'wake', 'go', 'exc', 'thread', 'waiting_for', 'steps')

  def __init__(self, name, fn, idx):
    self.name = name
    self.fn = fn
    self.idx = idx
    self.state = 'runnable'   # runnable | blocked | sleeping | done
    self.wake = 0.0
    self.go = threading.Semaphore(0)
    self.exc = None
    self.thread = None
    self.waiting_for = None
    self.steps = 0

  def __repr__(self):
    return '<T%d %s %s>' % (self.idx, self.name, self.state)


class Policy(object):
  """Default policy: never deviates."""

  def choose(self, sched, decision_no, kind, me, options):
    return 0


class DeviationPolicy(Policy):
  def __init__(self, deviations):
    self.dev = {int(k): int(v) for k, v in dict(deviations).items()}

  def choose(self, sched, decision_no, kind, me, options):
    k = self.dev.get(decision_no, 0)
    if k >= len(options):
      k = len(options) - 1
    return k


class RandomPolicy(Policy):
  """Bernoulli(p) switching at line points; uniform choice at forced decisions with prob q."""

  def __init__(self, rng, p=0.1, q=0.3):
    self.rng = rng
    self.p = p
    self.q = q

  def choose(self, sched, decision_no, kind, me, options):
    r = self.rng.random()
    if kind == 'line':
      if r < self.p:
        return self.rng.randrange(1, len(options))
      return 0
    if r < self.q:
      return self.rng.randrange(0, len(options))
    return 0


class TargetedPolicy(Policy):
  """Random switching with a high probability at lines of selected files/functions (named race windows)."""

  def __init__(self, rng, hot, p_hot=0.5, p_cold=0.02, q=0.3):
    self.rng = rng
    self.hot = hot          # callable(frame) -> bool
    self.p_hot = p_hot
    self.p_cold = p_cold
    self.q = q
    self.hot_points = 0

  def choose(self, sched, decision_no, kind, me, options):
    r = self.rng.random()
    if kind == 'line':
      fr = getattr(sched, 'cur_frame', None)
      hot = fr is not None and self.hot(fr)
      if hot:
        self.hot_points += 1
      if r < (self.p_hot if hot else self.p_cold):
        return self.rng.randrange(1, len(options))
      return 0
    if r < self.q:
      return self.rng.randrange(0, len(options))
    return 0


class PCTPolicy(Policy):
  """PCT-style: random thread priorities, d priority-change points at random decisions."""

  def __init__(self, rng, nthreads, horizon, d=2):
    self.prio = list(range(nthreads))
    rng.shuffle(self.prio)
    self.change = sorted(rng.randrange(0, max(1, horizon)) for _ in range(d))
    self.low = -1
    self.rng = rng

  def choose(self, sched, decision_no, kind, me, options):
    while self.change and decision_no >= self.change[0]:
      self.change.pop(0)
      if me is not None:
        self.prio[me.idx] = self.low
        self.low -= 1
    # non-sleeping threads first (a sleeper is picked only if nothing else can run)
    best, bestk = None, 0
    for k, t in enumerate(options):
      key = (0 if t.state != 'sleeping' else 1, -self.prio[t.idx])
      if best is None or key < best:
        best, bestk = key, k
    return bestk


class Scheduler(object):
  def __init__(self, policy=None, trace_files=(), step_cap=200000, on_point=None, on_switch=None):
    self.policy = policy or Policy()
    self.trace_files = set(trace_files)
    self.step_cap = step_cap
    self.on_point = on_point
    self.on_switch = on_switch
    self.threads = []
    self.by_ident = {}
    self.now = 0.0
    self.step = 0
    self.decision_no = 0
    self.deviations = {}
    self.switches = 0
    self.trace_hash = 0
    self.abort = False
    self.error = None
    self.done = threading.Event()
    self.current = None
    self.started = False
    self._file_ok = {}

  # ------------------------------------------------------------------ setup
  def spawn(self, name, fn):
    t = SThread(name, fn, len(self.threads))
    self.threads.append(t)
    return t

  def me(self):
    return self.by_ident.get(threading.get_ident())

  # ------------------------------------------------------------------ tracing
  def _global_trace(self, frame, event, arg):
    fn = frame.f_code.co_filename
    ok = self._file_ok.get(fn)
    if ok is None:
      ok = self._file_ok[fn] = (os.path.basename(fn) in self.trace_files and '/carbon/' in fn)
    if ok:
      return self._local_trace
    return None

  def _local_trace(self, frame, event, arg):
    if event == 'line':
      self.point(frame)
    return self._local_trace

  # ------------------------------------------------------------------ core
  def _options(self, me, kind):
    run, sl = [], []
    for t in self.threads:
      if t is me and kind == 'line':
        continue
      if t.state == 'runnable':
        run.append(t)
      elif t.state == 'sleeping':
        sl.append(t)
    sl.sort(key=lambda t: (t.wake, t.idx))
    opts = run + sl
    if kind == 'line':
      opts = [me] + opts
    return opts

  def _decide(self, me, kind):
    """Returns the thread to run next (may be `me`), or None if nothing can run."""
    opts = self._options(me, kind)
    if not opts:
      return None
    if len(opts) == 1:
      nxt = opts[0]
    else:
      n = self.decision_no
      self.decision_no += 1
      k = self.policy.choose(self, n, kind, me, opts)
      if k:
        self.deviations[n] = k
      nxt = opts[k]
    if nxt.state == 'sleeping':
      if nxt.wake > self.now:
        self.now = nxt.wake
      nxt.state = 'runnable'
    return nxt

  def _transfer(self, me, nxt):
    """Give the baton to nxt and park me (if me is not done)."""
    if nxt is me:
      return
    self.switches += 1
    if self.on_switch:
      self.on_switch(self, me, nxt)
    self.current = nxt
    nxt.go.release()
    if me is not None and me.state != 'done':
      me.go.acquire()
      if self.abort:
        raise Abort()

  def _fail(self, exc):
    self.error = exc
    self.abort = True
    self.done.set()
    for t in self.threads:
      t.go.release()

  def point(self, frame):
    me = self.by_ident.get(threading.get_ident())
    if me is None:
      return
    if self.abort:
      raise Abort()
    self.step += 1
    me.steps += 1
    self.trace_hash = hash((self.trace_hash, me.idx, frame.f_lineno, frame.f_code.co_firstlineno))
    if self.step > self.step_cap:
      self._fail(StepLimit('step cap %d exceeded' % self.step_cap))
      raise Abort()
    if self.on_point:
      self.on_point(self, me, frame)
    self.cur_frame = frame
    try:
      nxt = self._decide(me, 'line')
    finally:
      self.cur_frame = None      # never keep a frame (and with it a whole thread stack) alive
    if nxt is not me:
      self._transfer(me, nxt)

  def _yield_forced(self, me, kind):
    """me cannot continue (blocked / sleeping): hand over; returns when me is chosen again."""
    nxt = self._decide(me, kind)
    if nxt is None:
      blocked = [t for t in self.threads if t.state == 'blocked']
      self._fail(Deadlock('no runnable thread; blocked=%r' % blocked))
      raise Abort()
    if nxt is me:
      return
    self._transfer(me, nxt)

  # ------------------------------------------------------------------ primitives used by doubles
  def block_on(self, obj):
    me = self.me()
    me.state = 'blocked'
    me.waiting_for = obj
    self._yield_forced(me, 'block')

  def unblock(self, obj):
    for t in self.threads:
      if t.state == 'blocked' and t.waiting_for is obj:
        t.state = 'runnable'
        t.waiting_for = None

  def sleep(self, d):
    me = self.me()
    if me is None:
      self.now += max(0.0, d)
      return
    if self.abort:
      raise Abort()
    me.state = 'sleeping'
    me.wake = self.now + max(0.0, d)
    self._yield_forced(me, 'sleep')

  # ------------------------------------------------------------------ run
  def _thread_main(self, t):
    self.by_ident[threading.get_ident()] = t
    t.go.acquire()
    try:
      if self.abort:
        return
      sys.settrace(self._global_trace)
      try:
        t.fn()
      finally:
        sys.settrace(None)
    except Abort:
      pass
    except BaseException as e:   # recorded, reported by the harness
      t.exc = e
    finally:
      t.state = 'done'
      if not self.abort:
        nxt = self._decide(t, 'exit')
        if nxt is None:
          if all(x.state == 'done' for x in self.threads):
            self.done.set()
          else:
            self._fail(Deadlock('no runnable thread at exit of %s; states=%r' % (t.name, self.threads)))
        else:
          self.switches += 1
          if self.on_switch:
            self.on_switch(self, t, nxt)
          self.current = nxt
          nxt.go.release()

  def run(self, timeout=60.0):
    for t in self.threads:
      t.thread = threading.Thread(target=self._thread_main, args=(t,), name=t.name, daemon=True)
      t.thread.start()
    first = self._decide(None, 'start')
    self.current = first
    first.go.release()
    ok = self.done.wait(timeout)
    if not ok:
      import traceback
      frames = sys._current_frames()
      dump = []
      for t in self.threads:
        fr = frames.get(t.thread.ident)
        st = ''.join(traceback.format_stack(fr)[-6:]) if fr is not None else '(no frame)'
        dump.append('%r current=%s\n%s' % (t, t is self.current, st))
      self.abort = True
      self.error = TimeoutError('watchdog: schedule did not finish in %.0fs; step=%d decisions=%d\n%s' % (
        timeout, self.step, self.decision_no, '\n'.join(dump)))
      for t in self.threads:
        t.go.release()
    for t in self.threads:
      t.thread.join(2.0)
    return self.error


class SchedLock(object):
  """Drop-in for threading.Lock under the scheduler."""

  def __init__(self, sched, reentrant=False):
    self.sched = sched
    self.owner = None
    self._locked = False
    self.on_acquire = None
    self.on_release = None
    self.contended = 0
    self.reentrant = reentrant      # mirrors the kind of lock it stands in for (threading.RLock vs Lock)
    self.depth = 0

  def acquire(self, blocking=True, timeout=-1):
    s = self.sched
    me = s.me()
    if self.reentrant and self._locked and self.owner is me and me is not None:
      self.depth += 1
      return True
    while self._locked:
      if not blocking:
        return False
      if me is None:
        raise RuntimeError('unscheduled thread would block on SchedLock')
      self.contended += 1
      s.block_on(self)
    self._locked = True
    self.owner = me
    if self.on_acquire:
      self.on_acquire(me)
    return True

  def release(self):
    if not self._locked:
      raise RuntimeError('release unlocked lock')
    if self.depth:
      self.depth -= 1
      return
    me = self.owner
    self._locked = False
    self.owner = None
    self.sched.unblock(self)
    if self.on_release:
      self.on_release(me)

  def locked(self):
    return self._locked

  __enter__ = acquire

  def __exit__(self, *a):
    self.release()


class VTime(object):
  """Double for the `time` module (time(), sleep()) bound to a scheduler-like clock holder."""

  def __init__(self):
    self.sched = None
    self.base = 1000000.0
    self.offset = 0.0        # used when no scheduler is attached
    self.jitter = 0.0        # a clock that moves by this much with every look at it (a loaded machine, a thread that lost the CPU)

  def time(self):
    if self.sched is not None:
      if self.jitter:
        self.sched.now += self.jitter
      return self.base + self.sched.now
    if self.jitter:
      self.offset += self.jitter
    return self.base + self.offset

  def sleep(self, d):
    if d < 0:
      raise ValueError('sleep length must be non-negative')      # as time.sleep() does
    if self.sched is not None:
      self.sched.sleep(d)
    else:
      self.offset += d

  def monotonic(self):
    return self.time()


def enumerate_preemptions(run_one, max_preempt=2, alt=1, limit=None, stride2=1):
  """Drive run_one(deviations) -> n_decisions over all schedules with <= max_preempt deviations.

  Yields nothing; run_one is expected to record results itself.  Returns number of schedules run.
  `limit` caps the total; `stride2` subsamples the second preemption position."""
  count = 0
  n0 = run_one({})
  count += 1
  if max_preempt < 1:
    return count
  for i in range(n0 + 1):
    if limit is not None and count >= limit:
      return count
    ni = run_one({i: alt})
    count += 1
    if max_preempt >= 2:
      for j in range(i + 1, ni + 1, stride2):
        if limit is not None and count >= limit:
          return count
        run_one({i: alt, j: alt})
        count += 1
  return count
