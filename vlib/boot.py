"""Boot the real carbon code for one configuration, inside the current (fresh) process.

See DESIGN.md section 2.1.  Nothing here hard-codes a derived limit: carbon.conf is generated,
then carbon's own option parsing (CarbonCacheOptions.postOptions etc.) populates `settings`.
"""
import atexit
import faulthandler
import os
import shutil
import sys
import tempfile
import threading
import types

REPO = os.environ.get('VERIF_REPO', '/repo')
REPO_LIB = os.path.join(REPO, 'lib')

_booted = {}


def scratch_root():
  base = os.environ.get('VERIF_SCRATCH')
  if base:
    os.makedirs(base, exist_ok=True)
  d = tempfile.mkdtemp(prefix='carbon-verif-', dir=base)
  atexit.register(shutil.rmtree, d, True)
  return d


class Tripwires(object):
  """Nothing may die silently: collects thread exceptions, unraisables and twisted log errors."""

  def __init__(self):
    self.thread_exc = []
    self.unraisable = []
    self.log_errors = []   # (text, failure-type-name)
    self.log_events = 0

  def install(self):
    def thook(args):
      self.thread_exc.append((args.exc_type.__name__, str(args.exc_value), getattr(args.thread, 'name', '?')))
    threading.excepthook = thook

    def uhook(u):
      self.unraisable.append((getattr(u.exc_type, '__name__', '?'), str(u.exc_value), str(u.err_msg)))
    sys.unraisablehook = uhook
    try:
      faulthandler.enable()
    except Exception:
      pass
    from twisted.python import log as tlog

    def observer(ev):
      self.log_events += 1
      if ev.get('isError'):
        f = ev.get('failure')
        name = f.type.__name__ if f is not None and getattr(f, 'type', None) else 'error'
        txt = f.getErrorMessage() if f is not None else str(ev.get('message'))
        why = ev.get('why')
        self.log_errors.append((name, txt, str(why) if why else ''))
    tlog.addObserver(observer)
    self._observer = observer

  def snapshot(self):
    return (len(self.thread_exc), len(self.unraisable), len(self.log_errors))


def _ini(sections):
  out = []
  for name, kv in sections:
    out.append('[%s]' % name)
    for k, v in kv.items():
      if isinstance(v, bool):
        v = 'True' if v else 'False'
      elif isinstance(v, (list, tuple)):
        v = ', '.join(str(x) for x in v)
      out.append('%s = %s' % (k, v))
    out.append('')
  return '\n'.join(out)


DEFAULT_SCHEMAS = "[default_1min]\npattern = .*\nretentions = 60s:1d\n"


def boot(program='carbon-cache', conf=None, files=None, standins=(), database='verifmem',
         instance=None, import_service=True, instance_conf=None, extra_sections=None):
  """Boot `program` ('carbon-cache' | 'carbon-relay' | 'carbon-aggregator' | 'carbon-aggregator-cache').

  conf:  dict of carbon.conf keys for the program's section.
  files: dict relative-name -> text, written into CONF_DIR (storage-schemas.conf etc.).
  standins: subset of ('whisper', 'ceres') -> stand-in modules installed before carbon.database import.
  Returns a namespace with root, conf_dir, settings, state, tripwires.
  """
  if _booted:
    raise RuntimeError('boot() may be called once per process')
  _booted['x'] = True
  if REPO_LIB not in sys.path:
    sys.path.insert(0, REPO_LIB)
  os.environ.setdefault('GRAPHITE_NO_PREFIX', 'true')
  root = scratch_root()
  conf_dir = os.path.join(root, 'conf')
  os.makedirs(conf_dir)
  os.makedirs(os.path.join(root, 'storage', 'whisper'))
  os.makedirs(os.path.join(root, 'storage', 'log'))
  os.environ['GRAPHITE_ROOT'] = root
  os.environ.pop('GRAPHITE_CONF_DIR', None)
  os.environ.pop('GRAPHITE_STORAGE_DIR', None)

  section = program[len('carbon-'):]
  c = dict(conf or {})
  c.setdefault('DATABASE', database)
  c.setdefault('CARBON_METRIC_INTERVAL', 0)
  # The logging switches are part of what runs in a daemon, both ways: every other configuration (by a hash of its name)
  # runs with the production defaults (LOG_UPDATES, LOG_CREATES, LOG_CACHE_HITS, LOG_CACHE_QUEUE_SORTS,
  # LOG_LISTENER_CONN_SUCCESS on, LOG_LISTENER_CONN_LOST off), the others with all of them inverted.
  # VERIF_QUIET_LOGS=1 / 0 forces one of the two.
  import zlib
  quiet = os.environ.get('VERIF_QUIET_LOGS')
  if quiet is None:
    quiet = str(zlib.crc32(os.environ.get('VERIF_CFG_NAME', '').encode()) % 2)
  if quiet == '1':
    for k in ('LOG_UPDATES', 'LOG_CREATES', 'LOG_CACHE_HITS', 'LOG_CACHE_QUEUE_SORTS', 'LOG_LISTENER_CONN_SUCCESS'):
      c.setdefault(k, False)
    c.setdefault('LOG_LISTENER_CONN_LOST', True)
    c.setdefault('LOG_AGGREGATOR_MISSES', False)
  c.setdefault('ENABLE_LOGROTATION', False)
  # carbon-aggregator-cache reads section [aggregator-cache]
  secs = [(section, c)]
  if instance is not None and instance_conf:
    secs.append(('%s:%s' % (section, instance), dict(instance_conf)))     # per-instance overrides, as in carbon.conf.example
  for name, kv in (extra_sections or []):          # e.g. the section of another instance: must not leak into this one
    secs.append((name, dict(kv)))
  text = _ini(secs)
  with open(os.path.join(conf_dir, 'carbon.conf'), 'w') as f:
    f.write(text)
  fl = dict(files or {})
  fl.setdefault('storage-schemas.conf', DEFAULT_SCHEMAS)
  for name, content in fl.items():
    p = os.path.join(conf_dir, name)
    os.makedirs(os.path.dirname(p), exist_ok=True)
    mode = 'wb' if isinstance(content, bytes) else 'w'
    with open(p, mode) as f:
      f.write(content)

  # optional py2-only plugin: make its import fail with ImportError instead of SyntaxError
  sys.modules['carbon.amqp_listener'] = None
  from vlib import memdb
  for s in standins:
    sys.modules[s] = memdb.make_standin(s)
  import carbon.database  # noqa
  memdb.register_plugin()

  from carbon import conf as cconf
  from carbon.conf import settings

  class Parent(dict):
    subCommand = program
  parent = Parent(pidfile='twistd.pid', umask=None, nodaemon=True, syslog=False)
  if program == 'carbon-relay':
    opts = cconf.CarbonRelayOptions()
  elif program.startswith('carbon-aggregator'):
    opts = cconf.CarbonAggregatorOptions()
  else:
    opts = cconf.CarbonCacheOptions()
  opts.parent = parent
  opts['instance'] = instance
  # silence "Starting carbon-cache" print
  so = sys.stdout
  try:
    sys.stdout = open(os.devnull, 'w')
    opts.postOptions()
  finally:
    sys.stdout.close()
    sys.stdout = so

  tw = Tripwires()
  tw.install()
  ns = types.SimpleNamespace(root=root, conf_dir=conf_dir, settings=settings, options=opts,
                             tripwires=tw, program=program)
  if import_service:
    import carbon.service  # noqa  (sets state.events / state.instrumentation)
  from carbon import state
  ns.state = state
  return ns
