"""Orchestration, three-valued verdicts, evidence, known findings, replay files (DESIGN.md 2.8)."""
import concurrent.futures
import hashlib
import importlib
import json
import os
import subprocess
import sys
import tempfile
import time

VERIF = os.path.dirname(os.path.dirname(os.path.abspath(__file__)))
PY = os.environ.get('VERIF_PYTHON', '/venv/bin/python')
REPO = os.environ.get('VERIF_REPO', '/repo')

CHECKS = {
  'C01': 'checks.c01_ingest', 'C02': 'checks.c02_cache', 'C03': 'checks.c03_writer',
  'C04': 'checks.c04_shutdown', 'C05': 'checks.c05_replicas', 'C06': 'checks.c06_ring',
  'C07': 'checks.c07_queues', 'C08': 'checks.c08_aggregator', 'C09': 'checks.c09_backpressure',
  'C10': 'checks.c10_bound', 'C11': 'checks.c11_malformed', 'C12': 'checks.c12_admission',
  'C13': 'checks.c13_unpickler', 'C14': 'checks.c14_paths', 'C15': 'checks.c15_roundtrip',
  'C16': 'checks.c16_rules', 'C17': 'checks.c17_strategies', 'C18': 'checks.c18_tags',
  'C19': 'checks.c19_schemas', 'C20': 'checks.c20_ratelimit',
}


def digest(obj):
  return hashlib.sha1(json.dumps(obj, sort_keys=True, default=repr).encode('utf-8', 'replace')).hexdigest()[:12]


class Result(object):
  """Accumulates what a worker observed for one configuration."""

  def __init__(self):
    self.evaluations = 0
    self.nontrivial = set()
    self.samples = []
    self.counters = {}
    self.violations = []      # dict(sig, msg, witness, case)
    self.inconclusive = []
    self._vsigs = set()

  def count(self, name, n=1):
    self.counters[name] = self.counters.get(name, 0) + n

  def maxc(self, name, v):
    if v > self.counters.get(name, 0):
      self.counters[name] = v

  def case(self, key, nontrivial=True):
    self.evaluations += 1
    if nontrivial:
      self.nontrivial.add(key if isinstance(key, (int, str)) else digest(key))

  def sample(self, s, cap=4):
    if len(self.samples) < cap:
      self.samples.append(s)

  def violation(self, sig, msg, witness=None, case=None):
    self.count('violations_raw')
    if sig in self._vsigs:
      return
    self._vsigs.add(sig)
    self.violations.append(dict(sig=sig, msg=msg, witness=witness, case=case))

  def inconc(self, reason):
    if reason not in self.inconclusive:
      self.inconclusive.append(reason)

  def to_json(self):
    return dict(evaluations=self.evaluations, distinct_nontrivial=len(self.nontrivial),
                samples=self.samples, counters=self.counters, violations=self.violations,
                inconclusive=self.inconclusive)


def load_known():
  p = os.path.join(VERIF, 'known_findings.json')
  if not os.path.exists(p):
    return []
  with open(p) as f:
    return json.load(f).get('findings', [])


def _run_worker(prop, cfg, timeout):
  fd, out = tempfile.mkstemp(prefix='verif-res-', suffix='.json')
  os.close(fd)
  env = dict(os.environ)
  env['PYTHONPATH'] = VERIF + os.pathsep + os.path.join(VERIF, '.deps') + os.pathsep + os.path.join(REPO, 'lib')
  env['PYTHONHASHSEED'] = '0'
  env['GRAPHITE_NO_PREFIX'] = 'true'
  env['PYTHONDONTWRITEBYTECODE'] = '1'
  env.setdefault('CARBON_VERIF', '1')
  cmd = [PY]
  if cfg.get('xdev'):
    cmd += ['-X', 'dev']
  if cfg.get('pyopt'):
    cmd += ['-O'] if cfg['pyopt'] == 1 else ['-OO']      # daemons started with python -O / PYTHONOPTIMIZE: asserts are compiled away
  cmd += ['-m', 'vlib.worker', prop, json.dumps(cfg), out]
  t0 = time.time()
  try:
    p = subprocess.run(cmd, cwd=VERIF, env=env, timeout=timeout, stdout=subprocess.PIPE,
                       stderr=subprocess.PIPE)
    try:
      with open(out) as f:
        txt = f.read()
      res = json.loads(txt) if txt.strip() else None
    except Exception:
      res = None
    if res is None:
      tail = (p.stderr or b'').decode('utf-8', 'replace')[-1500:]
      res = dict(evaluations=0, distinct_nontrivial=0, samples=[], counters={}, violations=[],
                 inconclusive=['worker died without verdict (rc=%s): %s' % (p.returncode, tail)])
  except subprocess.TimeoutExpired:
    res = dict(evaluations=0, distinct_nontrivial=0, samples=[], counters={}, violations=[],
               inconclusive=['worker watchdog fired after %ss for config %s' % (timeout, cfg.get('name'))])
  finally:
    try:
      os.unlink(out)
    except OSError:
      pass
  res['wall'] = time.time() - t0
  res['cfg'] = cfg
  return res


def run_property(prop, tier, seed, jobs=None, replay=None, only=None):
  mod = importlib.import_module(CHECKS[prop])
  t0 = time.time()
  if replay:
    with open(replay) as f:
      rp = json.load(f)
    cfgs = [rp['cfg']]
  else:
    cfgs = mod.configs(tier, seed)
    if only:
      cfgs = [c for c in cfgs if only in c.get('name', '')]
  for i, c in enumerate(cfgs):
    c.setdefault('name', 'cfg%d' % i)
    c.setdefault('seed', seed)
    c.setdefault('tier', tier)
  jobs = jobs or int(os.environ.get('VERIF_JOBS', '0')) or min(16, os.cpu_count() or 4)
  default_timeout = getattr(mod, 'TIMEOUT', {}).get(tier, 600 if tier == 'quick' else 3000)
  results = []
  with concurrent.futures.ThreadPoolExecutor(max_workers=jobs) as ex:
    futs = [ex.submit(_run_worker, prop, c, c.get('timeout', default_timeout)) for c in cfgs]
    for f in futs:
      results.append(f.result())

  merged = dict(evaluations=0, distinct_nontrivial=0, samples=[], counters={}, inconclusive=[])
  violations = {}
  for r in results:
    merged['evaluations'] += r.get('evaluations', 0)
    merged['distinct_nontrivial'] += r.get('distinct_nontrivial', 0)
    for s in r.get('samples', []):
      if len(merged['samples']) < 6:
        merged['samples'].append(s)
    for k, v in r.get('counters', {}).items():
      if k.startswith('max_'):
        merged['counters'][k] = max(merged['counters'].get(k, 0), v)
      else:
        merged['counters'][k] = merged['counters'].get(k, 0) + v
    for reason in r.get('inconclusive', []):
      merged['inconclusive'].append('[%s] %s' % (r['cfg'].get('name'), reason))
    for v in r.get('violations', []):
      v = dict(v)
      v['cfg'] = r['cfg']
      violations.setdefault(v['sig'], v)
  if hasattr(mod, 'finalize') and not replay and not only:
    for reason in mod.finalize(merged, tier) or []:
      merged['inconclusive'].append(reason)

  known = [k for k in load_known() if k.get('property') == prop and k.get('status') == 'open']
  classify = getattr(mod, 'classify', lambda v: None)
  unlisted, listed = [], {}
  for sig, v in sorted(violations.items()):
    key = classify(v)
    kf = next((k for k in known if k.get('key') == key), None) if key else None
    if kf:
      listed.setdefault(key, (kf, v))
    else:
      unlisted.append(v)

  out_lines = []
  for key, (kf, v) in sorted(listed.items()):
    out_lines.append('KNOWN-FINDING: property=%s %s [%s] e.g. %s' % (prop, kf.get('what'), key, v['msg'][:200]))
  rdir = os.path.join(VERIF, 'evidence', 'replays')
  for v in unlisted:
    os.makedirs(rdir, exist_ok=True)
    path = os.path.join(rdir, '%s-%s.json' % (prop, digest(v['sig'])))
    with open(path, 'w') as f:
      json.dump(dict(property=prop, sig=v['sig'], msg=v['msg'], cfg=v['cfg'], case=v.get('case'),
                     witness=v.get('witness')), f, indent=1, default=repr)
    out_lines.append('VIOLATION property=%s replay=%s' % (prop, path))
    out_lines.append('  detail: [%s] %s' % (v['sig'], v['msg'][:600]))

  status = 'held'
  if unlisted:
    status = 'violated'
  elif merged['inconclusive']:
    status = 'inconclusive'
    for reason in merged['inconclusive'][:10]:
      out_lines.append('INCONCLUSIVE property=%s reason=%s' % (prop, reason[:600]))

  wall = time.time() - t0
  cov = dict(evaluations=merged['evaluations'], distinct_nontrivial=merged['distinct_nontrivial'],
             rule=getattr(mod, 'RULE', ''), samples=merged['samples'] or ['(none)'],
             counters=merged['counters'], configurations=len(cfgs),
             exhaustive=bool(getattr(mod, 'EXHAUSTIVE', {}).get(tier, False)),
             exhaustive_over=getattr(mod, 'EXHAUSTIVE_OVER', ''),
             status=status, known_findings_seen=sorted(listed),
             unlisted_violations=[dict(sig=v['sig'], msg=v['msg'][:400]) for v in unlisted],
             inconclusive=merged['inconclusive'][:20],
             slowest_configs=sorted(((round(r['wall'], 1), r['cfg'].get('name')) for r in results), reverse=True)[:5])
  ev = dict(property_id=prop, tier=tier, seed=seed, level=getattr(mod, 'LEVEL', 'exploration'),
            coverage=cov, assumptions=list(getattr(mod, 'ASSUMPTIONS', [])), wall_s=round(wall, 2),
            violations=len(unlisted))
  if not replay and not only:
    os.makedirs(os.path.join(VERIF, 'evidence'), exist_ok=True)
    with open(os.path.join(VERIF, 'evidence', '%s.json' % prop), 'w') as f:
      json.dump(ev, f, indent=1, default=repr)
  print('%s tier=%s seed=%d status=%s evaluations=%d distinct_nontrivial=%d configs=%d wall=%.1fs' % (
    prop, tier, seed, status, cov['evaluations'], cov['distinct_nontrivial'], len(cfgs), wall))
  for k in sorted(merged['counters']):
    print('  %s=%s' % (k, merged['counters'][k]))
  for line in out_lines:
    print(line)
  sys.stdout.flush()
  return {'held': 0, 'violated': 1, 'inconclusive': 2}[status]
