"""Execution engine for the two-thread cache/writer checks (C02, C03, C04, C09-cache, C10, C17).

A *world* is one booted carbon-cache process.  `World.run()` executes one history under one schedule:
the receiver thread runs store / query / stop operations, the writer thread runs either N calls of
cache.drain_metric() or the real writer.writeForever() loop.  Everything is recorded at the boundary
(call / return events stamped by one logical clock) and returned as a `Hist`.
"""
import math
import threading
import pickle
import struct

from vlib import memdb, sched as S


class Hist(object):
  pass


class FakeRunning(object):
  def __init__(self):
    self.running = True
    self.triggers = []

  def addSystemEventTrigger(self, *a, **k):
    self.triggers.append(a)

  def callInThread(self, f, *a, **k):
    self.in_thread = getattr(self, 'in_thread', []) + [f]


class World(object):
  def __init__(self, ns, trace_files=('cache.py', 'events.py'), full_pipeline=False):
    import carbon.cache as cc
    import carbon.writer as writer
    import carbon.util as util
    import carbon.protocols as protocols
    from carbon import events, state, instrumentation
    self.ns = ns
    self.cc, self.writer, self.util, self.protocols = cc, writer, util, protocols
    self.events, self.state, self.instr = events, state, instrumentation
    self.settings = ns.settings
    self.trace_files = set(trace_files)
    self.vt = S.VTime()
    cc.time = self.vt
    writer.time = self.vt
    util.time = self.vt.time
    util.sleep = self.vt.sleep
    protocols.time = self.vt
    memdb.CLOCK[0] = self.vt.time
    memdb.TICK[0] = self.tick
    self.reactor = FakeRunning()
    writer.reactor = self.reactor
    # the daemon's own wiring of the writer: WriterService.startService() says which functions run in threads and what
    # happens 'before shutdown'; the harness runs exactly those (by name, so that a reloaded module is picked up)
    from twisted.internet.task import Clock as _Clock
    svc = writer.WriterService()
    svc.storage_reload_task.clock = _Clock()
    svc.aggregation_reload_task.clock = _Clock()
    svc.startService()
    self.writer_service = svc
    self.thread_mains = [f.__name__ for f in getattr(self.reactor, 'in_thread', [])]
    self.shutdown_triggers = [t[2].__name__ for t in self.reactor.triggers if t[0] == 'before' and t[1] == 'shutdown']
    self.orig_lag = self.settings.MIN_TIMESTAMP_LAG
    self.signals = []       # (logical clock, name)
    self.clock = [0]
    events.cacheOverflow.addHandler(lambda: self._signal('overflow'))
    events.cacheFull.addHandler(lambda: self._signal('full'))
    events.cacheSpaceAvailable.addHandler(lambda: self._signal('space'))
    self.full_pipeline = full_pipeline
    self.root = None
    if full_pipeline:
      if self.settings.RELAY_CACHE_METRICS:
        from vlib import fakereactor
        import carbon.client as client
        client.reactor = fakereactor.FakeReactor()     # the relay part of a cache daemon never connects here
      from carbon import service
      from twisted.application.service import MultiService
      self.root = MultiService()
      service.setupPipeline(['write'], self.root, self.settings)   # real wiring of flow-control events
    self.limited = (writer.CREATE_BUCKET is not None or writer.UPDATE_BUCKET is not None)
    self.hard_max = self.settings.CACHE_SIZE_HARD_MAX
    self.bound = math.ceil(self.hard_max) if self.hard_max != float('inf') else None

  def _signal(self, name):
    # a signal belongs to the store in progress only if it is raised on the thread executing that store (the other thread
    # may be storing too: re-injected self-metrics during a drain)
    cur = self.cur_store[0]
    if cur is not None and cur.get('thread') is not threading.current_thread():
      cur = None
    self.signals.append((self.clock[0], name, cur))

  def tick(self):
    self.clock[0] += 1
    return self.clock[0]

  # ------------------------------------------------------------------ one execution
  def run(self, recv_ops, writer_plan, policy=None, **kw):
    """Runs one schedule.  A watchdog expiry is retried once with a longer limit when the policy is replayable
    (load spikes on a shared machine must not turn into verdicts); a second expiry is reported."""
    h = self._run_once(recv_ops, writer_plan, policy=policy, **kw)
    if isinstance(h.sched_error, TimeoutError) and isinstance(policy, (S.DeviationPolicy, type(None))):
      self.watchdog_retries = getattr(self, 'watchdog_retries', 0) + 1
      kw['timeout'] = 4 * kw.get('timeout', 30.0)
      h = self._run_once(recv_ops, writer_plan, policy=policy, **kw)
    elif isinstance(h.sched_error, TimeoutError):
      # non-replayable (random) policy: replay the recorded deviations
      self.watchdog_retries = getattr(self, 'watchdog_retries', 0) + 1
      kw['timeout'] = 4 * kw.get('timeout', 30.0)
      h = self._run_once(recv_ops, writer_plan, policy=S.DeviationPolicy(h.deviations), **kw)
    return h

  def _run_once(self, recv_ops, writer_plan, policy=None, step_monitor=None, timeout=30.0, drain_rest=True,
                t0_offset=0.0, receivers=0, pre=None, snap_stores=False, fault_plan=None, rest_via_hook=False, fault_metrics=None):
    cc, writer, state = self.cc, self.writer, self.state
    import random as _random
    _random.seed(424242)          # RandomStrategy uses the global PRNG: keep runs replayable
    h = Hist()
    sc = S.Scheduler(policy or S.Policy(), trace_files=self.trace_files, step_cap=60000)
    self.vt.sched = sc
    sc.now = t0_offset
    # fresh daemon state
    cc._Cache = None
    cache = cc.MetricCache()
    lock = S.SchedLock(sc, reentrant=(type(cache.lock).__name__ == 'RLock'))
    cache.lock = lock
    state.cacheTooFull = False
    state.metricReceiversPaused = False
    self.instr.stats.clear()
    memdb.reset()
    if fault_plan:
      memdb.FAULT_PLAN.update({int(k): v for k, v in fault_plan.items()})
    if fault_metrics:
      memdb.FAULT_METRICS.update(fault_metrics)      # damaged files: every write to these metrics raises
    state.database.files.clear()
    # shutdownModifyUpdateSpeed() assigns settings.MIN_TIMESTAMP_LAG = 0: Settings has no __setattr__, so that creates
    # an instance attribute shadowing the dict item for the rest of the process - drop it as well
    self.settings.__dict__.pop('MIN_TIMESTAMP_LAG', None)
    self.settings['MIN_TIMESTAMP_LAG'] = self.orig_lag
    self.reactor.running = True
    if getattr(self, 'schemas_edited', False):
      # an earlier run edited storage-schemas.conf (op 'reload'): a fresh daemon starts from the original file
      import os as _os
      with open(_os.path.join(self.ns.conf_dir, 'storage-schemas.conf'), 'w') as f_:
        f_.write(self.schemas_text0)
      from carbon.storage import loadStorageSchemas as _lss
      writer.SCHEMAS = _lss()
      ev_ = getattr(writer, 'schemaReloadRequested', None)
      if ev_ is not None and hasattr(ev_, 'clear'):
        ev_.clear()
      self.schemas_edited = False
    del self.signals[:]
    self.clock[0] = 0
    self.cur_store = [None]
    if self.limited:
      import importlib
      importlib.reload(writer)
      writer.time = self.vt
      writer.reactor = self.reactor
    while not writer.tagQueue.add_queue.empty():
      writer.tagQueue.add_queue.get_nowait()
    while not writer.tagQueue.update_queue.empty():
      writer.tagQueue.update_queue.get_nowait()
    if self.full_pipeline:
      state.pipeline_processors[:] = [cc.CacheFeedingProcessor()]
      if state.pipeline_processors_generated:
        state.pipeline_processors_generated[:] = [cc.CacheFeedingProcessor()]
      if state.client_manager is not None:           # RELAY_CACHE_METRICS: nothing may be carried over between runs
        for f in state.client_manager.client_factories.values():
          f.queue.clear()
    log_err0 = len(self.ns.tripwires.log_errors)
    h.cache = cache
    h.stores, h.drains, h.queries, h.exceptions = [], [], [], []
    h.size_violation = None
    h.bound_violation = None
    h.lockfree_points = 0
    h.drain_acquire_snaps = []
    h.stop_clock = None
    h.window_hits = dict(store_between_choose_and_pop=0, store_between_pop_and_spacecheck=0, switch_inside_event_dispatch=0,
                         store_during_drain_call=0)
    drain_state = dict(active=None)
    bound = self.bound
    tick = self.tick
    protos = []
    if receivers:
      from twisted.internet.testing import StringTransport
      for i in range(receivers):
        p = self.protocols.MetricLineReceiver()
        p.makeConnection(StringTransport())
        protos.append(p)
    h.protos = protos
    if pre:
      pre(h)

    def on_point(sc_, me, frame):
      # invariants where the code promises them: whenever the cache lock is free
      if not lock._locked:
        h.lockfree_points += 1
        tot = 0
        for v in cache.values():
          tot += len(v)
        if cache.size != tot and h.size_violation is None:
          h.size_violation = dict(step=sc_.step, size=cache.size, actual=tot, thread=me.name,
                                  where='%s:%d' % (frame.f_code.co_name, frame.f_lineno))
      if bound is not None and cache.size > bound and h.bound_violation is None:
        h.bound_violation = dict(step=sc_.step, size=cache.size, bound=bound, thread=me.name)
      if bound is not None and not lock._locked and tot > bound and h.bound_violation is None:
        h.bound_violation = dict(step=sc_.step, size=tot, bound=bound, thread=me.name)       # what is actually held
      if frame.f_code.co_name == 'removeHandler' and me.name == 'recv':
        # does a handler get unsubscribed while the writer thread is in the middle of dispatching the resume event?
        import sys as _sys
        wt = sc_.threads[1].thread
        fr = _sys._current_frames().get(wt.ident) if wt is not None else None
        depth = 0
        while fr is not None and depth < 60:
          if fr.f_code.co_name == '__call__' and fr.f_code.co_filename.endswith('events.py'):
            ev = fr.f_locals.get('self')
            if getattr(ev, 'name', '') == 'resumeReceivingMetrics' and frame.f_locals.get('self') is ev:
              h.disconnect_during_resume_dispatch = getattr(h, 'disconnect_during_resume_dispatch', 0) + 1
              break
          fr = fr.f_back
          depth += 1
      if step_monitor:
        step_monitor(sc_, me, frame, h)
    sc.on_point = on_point

    def on_switch(sc_, frm, to):
      if frm is not None and frm.state != 'done' and frm.thread is not None:
        import sys
        frames = sys._current_frames()
        fr = frames.get(frm.thread.ident)
        depth = 0
        in_dispatch = None
        while fr is not None and depth < 40:
          if fr.f_code.co_name == '__call__' and fr.f_code.co_filename.endswith('events.py'):
            h.window_hits['switch_inside_event_dispatch'] += 1
            in_dispatch = fr.f_locals.get('self')
            break
          fr = fr.f_back
          depth += 1
        # the thread we switch to is parked in removeHandler (its list.remove() executes as soon as it runs) while the
        # thread we leave is in the middle of dispatching that very event
        if in_dispatch is not None and to is not None and to.thread is not None and getattr(in_dispatch, 'name', '') == 'resumeReceivingMetrics':
          tf = frames.get(to.thread.ident)
          d2 = 0
          while tf is not None and d2 < 12:
            if tf.f_code.co_name == 'removeHandler' and tf.f_locals.get('self') is in_dispatch:
              h.disconnect_during_resume_dispatch = getattr(h, 'disconnect_during_resume_dispatch', 0) + 1
              break
            tf = tf.f_back
            d2 += 1
    sc.on_switch = on_switch

    # lock callbacks: identify the windows of a drain call on the writer thread
    def on_acquire(me):
      d = drain_state['active']
      if me is not None and me.name == 'writer' and d is not None:
        d['acquires'] += 1
        if d['acquires'] == 1:
          snap = {}
          for m, v in cache.items():
            snap[m] = (len(v), (min(v) if v else None))
          d['snap'] = snap
          d['snap_now'] = self.vt.time()
      elif me is not None and me.name == 'recv' and d is not None:
        h.window_hits['store_during_drain_call'] += 1
        d.setdefault('recv_acq', []).append((d['acquires'], d['releases']))

    def on_release(me):
      d = drain_state['active']
      if me is not None and me.name == 'writer' and d is not None:
        d['releases'] += 1
    lock.on_acquire = on_acquire
    lock.on_release = on_release

    real_drain = type(cache).drain_metric

    def drain_wrapper():
      d = dict(call=tick(), acquires=0, releases=0, snap=None, snap_now=None, vt_call=self.vt.time(),
               stats0=dict((k, self.instr.stats.get(k, 0)) for k in ('committedPoints', 'creates', 'droppedCreates', 'errors')),
               logerr0=len(self.ns.tripwires.log_errors) - log_err0)
      drain_state['active'] = d
      try:
        r = real_drain(cache)
      except S.Abort:
        raise
      except BaseException as e:
        d['ret'] = tick()
        d['exc'] = e
        drain_state['active'] = None
        h.drains.append(d)
        h.exceptions.append(('drain_metric', e))
        raise
      d['ret'] = tick()
      d['vt_ret'] = self.vt.time()
      d['metric'], d['points'] = r[0], list(r[1])
      for (a, rl) in d.get('recv_acq', ()):
        if d['acquires'] >= 2 and a == 1 and rl == 1:
          h.window_hits['store_between_choose_and_pop'] += 1       # only exists if choose and pop are separate sections
        elif rl >= d['acquires'] >= 1:
          h.window_hits['store_between_pop_and_spacecheck'] += 1
      drain_state['active'] = None
      h.drains.append(d)
      return r
    cache.drain_metric = drain_wrapper

    vcount = [0]

    def do_store(m, t, via=None):
      v = float(vcount[0])          # unique values 0.0, 1.0, 2.0, ... (zero is a value like any other)
      vcount[0] += 1
      sent = m
      if via is not None or getattr(self, 'store_through_pipeline', False):
        from vlib.refs import tags as _reft
        m = _reft.canonical(m)        # the pipeline files a series under its canonical name, however it was spelled
      rec = dict(call=tick(), metric=m, ts=t, value=v, refused=False, idx=len(h.stores), sent=sent, thread=threading.current_thread())
      h.stores.append(rec)
      self.cur_store[0] = rec
      nsig = len(self.signals)
      if snap_stores:
        rec['before'] = ({mm: dict(vv) for mm, vv in cache.items()}, len(cache), cache.size)
        rec['wsteps0'] = sc.threads[1].steps
        rec['wstate0'] = sc.threads[1].state
      try:
        if via is not None:
          via.dataReceived(('%s %r %r\n' % (sent, v, t)).encode())
        elif getattr(self, 'store_through_pipeline', False):
          self.events.metricReceived(sent, (t, v))      # the datapoint enters the daemon's pipeline as a receiver hands it over
        else:
          cache.store(m, (t, v))
      except S.Abort:
        raise
      except BaseException as e:
        rec['exc'] = e
        h.exceptions.append(('store', e))
      rec['ret'] = tick()
      if snap_stores:
        rec['after'] = ({mm: dict(vv) for mm, vv in cache.items()}, len(cache), cache.size)
        rec['undisturbed'] = (sc.threads[1].steps == rec['wsteps0'])
      self.cur_store[0] = None
      rec['signals'] = [s[1] for s in self.signals[nsig:] if s[2] is rec]
      if 'overflow' in rec['signals']:
        rec['refused'] = True

    qproto = [None]

    def do_query(metrics, bulk):
      from twisted.internet.testing import StringTransport
      if qproto[0] is None:
        p = self.protocols.CacheManagementHandler()
        p.makeConnection(StringTransport())
        qproto[0] = p
      p = qproto[0]
      p.transport.clear()
      req = dict(type='cache-query-bulk', metrics=list(metrics)) if bulk else dict(type='cache-query', metric=metrics[0])
      data = pickle.dumps(req, protocol=2)
      q = dict(call=tick(), metrics=list(metrics), bulk=bulk)
      try:
        p.dataReceived(struct.pack('!I', len(data)) + data)
        raw = p.transport.value()
        resp = pickle.loads(raw[4:])
        if bulk:
          q['result'] = {m: list(v) for m, v in resp['datapointsByMetric'].items()}
        else:
          q['result'] = {metrics[0]: list(resp['datapoints'])}
      except S.Abort:
        raise
      except BaseException as e:
        q['exc'] = e
        h.exceptions.append(('query', e))
      q['ret'] = tick()
      h.queries.append(q)

    def recv_main():
      for op in recv_ops:
        k = op[0]
        if k == 'store':
          do_store(op[1], op[2])
        elif k == 'line':      # through a real MetricLineReceiver (flow control honoured by the caller)
          p = protos[op[3] % len(protos)]
          if p.transport.producerState == 'producing':
            do_store(op[1], op[2], via=p)
          else:
            h.skipped_paused = getattr(h, 'skipped_paused', 0) + 1
        elif k == 'chunk':     # one dataReceived() carrying several lines; a paused transport delivers nothing
          p = protos[op[1] % len(protos)]
          if p.transport.producerState == 'producing':
            lines = []
            for (m, t) in op[2]:
              lines.append('%s %d %s\n' % (m, vcount[0], ('%d' % t) if isinstance(t, int) else repr(float(t))))      # sub-second clients send fractions
              vcount[0] += 1
            h.chunks_delivered = getattr(h, 'chunks_delivered', 0) + 1
            try:
              p.dataReceived(''.join(lines).encode())
            except S.Abort:
              raise
            except BaseException as e:
              h.exceptions.append(('dataReceived', e))
          else:
            h.skipped_paused = getattr(h, 'skipped_paused', 0) + 1
        elif k == 'connect':   # a new client connects (possibly while receivers are paused)
          from twisted.internet.testing import StringTransport
          p = self.protocols.MetricLineReceiver()

          class CountingTransport(StringTransport):
            pause_calls = 0

            def pauseProducing(self):
              self.pause_calls += 1
              StringTransport.pauseProducing(self)
          paused_before = bool(state.metricReceiversPaused)
          p.makeConnection(CountingTransport())
          # "connections made while paused are paused too": the flag was set before and after the connection was made and
          # nobody ever asked the transport to pause.  (The producing state a moment later is not the observation: the
          # writer thread may have resumed everybody in between - with RELAY_CACHE_METRICS even while the flag is set
          # again by a pause nested in that resume dispatch.)
          p.verif_connected_while_paused = paused_before and bool(state.metricReceiversPaused)
          p.verif_state_after_connect = 'paused' if p.transport.pause_calls else p.transport.producerState
          # a pause/resume being dispatched by the writer thread right now makes this instantaneous observation meaningless
          import sys as _s
          wt = sc.threads[1].thread
          wf = _s._current_frames().get(wt.ident) if wt is not None else None
          dd = 0
          p.verif_writer_mid_dispatch = False
          while wf is not None and dd < 60:
            if wf.f_code.co_name == '__call__' and wf.f_code.co_filename.endswith('events.py'):
              p.verif_writer_mid_dispatch = True
              break
            wf = wf.f_back
            dd += 1
          protos.append(p)
        elif k == 'relaybuf':     # RELAY_CACHE_METRICS: a self-metric is handed to the relay manager (no destination is up)
          if state.client_manager is not None:
            h.self_prefix = self.settings.CARBON_METRIC_PREFIX + '.'
            state.client_manager.sendDatapoint('carbon.agents.self.m%d' % (vcount[0] % 2), (999900 + (vcount[0] // 2) % 3, float(vcount[0])))
            vcount[0] += 1
        elif k == 'reload':
          # somebody edits storage-schemas.conf while the daemon runs, and the 60-second reload tasks of the WriterService
          # come round on the reactor thread (a LoopingCall survives whatever its function raises: the task just ends)
          import os as _os
          path = _os.path.join(self.ns.conf_dir, 'storage-schemas.conf')
          if not hasattr(self, 'schemas_text0'):
            self.schemas_text0 = open(path).read()
          with open(path, 'w') as f_:
            f_.write(op[1])
          self.schemas_edited = True
          h.reloads = getattr(h, 'reloads', 0) + 1
          for task in (self.writer_service.storage_reload_task, self.writer_service.aggregation_reload_task):
            try:
              task.f(*task.a, **task.kw)
            except S.Abort:
              raise
            except BaseException as e:
              h.reload_failures = getattr(h, 'reload_failures', 0) + 1
        elif k == 'disconnect':   # a client goes away
          if len(protos) > 1:
            from twisted.internet.error import ConnectionDone
            from twisted.python.failure import Failure
            p = protos.pop(op[1] % len(protos))
            h.closed = getattr(h, 'closed', 0) + 1
            p.connectionLost(Failure(ConnectionDone()))
        elif k == 'query':
          do_query([op[1]], False)
        elif k == 'bulk':
          do_query(op[1], True)
        elif k == 'sleep':
          self.vt.sleep(op[1])
        elif k == 'stop':
          h.stop_clock = tick()
          h.stop_vt = self.vt.time()
          for name in self.shutdown_triggers:     # the 'before shutdown' triggers the daemon registered, on the reactor thread
            getattr(writer, name)()
          self.reactor.running = False            # reactor leaves its loop; the thread pool is then joined
        elif k == 'tick':
          # the InstrumentationService's LoopingCall on the reactor thread: reads the cache's size and stores the
          # daemon's self-metrics (under CARBON_METRIC_PREFIX; not part of the generated history)
          h.ticks = getattr(h, 'ticks', 0) + 1
          h.self_prefix = self.settings.CARBON_METRIC_PREFIX + '.'
          # every statistic the tick records for the cache is a datapoint offered to it: it reaches store() (where it is
          # kept, or refused with the overflow signal) or the overflow signal is raised for it some other way
          real_record, real_store = self.instr.cache_record, cache.store
          me_ = threading.current_thread()
          tickst = dict(records=0, silent=0, in_record=False, stored=0, ovf=0)

          def on_ovf():
            if tickst['in_record'] and threading.current_thread() is me_:
              tickst['ovf'] += 1

          def store_(metric, datapoint):
            if tickst['in_record'] and threading.current_thread() is me_:
              tickst['stored'] += 1
            return real_store(metric, datapoint)

          def record_(metric, value):
            tickst['records'] += 1
            if metric == 'cache.overflow':
              h.overflow_recorded = getattr(h, 'overflow_recorded', 0) + value      # the counter is reported and starts again
            tickst['in_record'], tickst['stored'], tickst['ovf'] = True, 0, 0
            try:
              return real_record(metric, value)
            finally:
              tickst['in_record'] = False
              if not self.settings.RELAY_CACHE_METRICS and not tickst['stored'] and not tickst['ovf']:
                tickst['silent'] += 1
                h.silent_self_metric = (metric, value, cache.size)
          self.events.cacheOverflow.addHandler(on_ovf)
          self.instr.cache_record = record_
          cache.store = store_
          try:
            self.instr.recordMetrics()
          except S.Abort:
            raise
          except BaseException as e:
            h.exceptions.append(('recordMetrics', e))
            h.tick_exc = e
          finally:
            self.instr.cache_record = real_record
            del cache.store
            self.events.cacheOverflow.removeHandler(on_ovf)
          h.tick_records = getattr(h, 'tick_records', 0) + tickst['records']
          h.tick_silent = getattr(h, 'tick_silent', 0) + tickst['silent']
        elif k == 'call':
          op[1](h)
        else:
          raise ValueError(op)

    def writer_main():
      if writer_plan[0] == 'drains':
        for _ in range(writer_plan[1]):
          try:
            cache.drain_metric()
          except S.Abort:
            raise
          except BaseException:
            pass
      elif writer_plan[0] == 'loop':
        if 'writeForever' in self.thread_mains:   # started by WriterService.startService() through reactor.callInThread
          writer.writeForever()
        else:
          h.wiring = 'WriterService.startService() did not start writeForever in a thread (started: %r)' % (self.thread_mains,)
      elif writer_plan[0] == 'passes':
        for _ in range(writer_plan[1]):
          try:
            writer.writeCachedDataPoints()
          except S.Abort:
            raise
          except BaseException as e:
            h.exceptions.append(('writeCachedDataPoints', e))
          self.vt.sleep(1)
      else:
        raise ValueError(writer_plan)

    sc.spawn('recv', recv_main)
    sc.spawn('writer', writer_main)
    err = sc.run(timeout)
    h.sched_error = err
    h.thread_exc = [(t.name, t.exc) for t in sc.threads if t.exc is not None]
    h.steps, h.decisions, h.switches, h.trace_hash = sc.step, sc.decision_no, sc.switches, sc.trace_hash
    h.deviations = dict(sc.deviations)
    h.contended = lock.contended
    h.vt_end = self.vt.time()
    h.log_errors = list(self.ns.tripwires.log_errors[log_err0:])
    h.backend = list(memdb.CALL_LOG)
    h.stats = dict(self.instr.stats)
    h.all_signals = [x[1] for x in self.signals]
    h.end_tick = self.tick()
    h.final = {m: dict(v) for m, v in cache.items()}
    h.final_size = cache.size
    h.final_held = sum(len(v) for v in cache.values())       # what is really there, whatever the counter says
    h.final_len = len(cache)
    # detach the scheduler: post-run work happens on the main thread
    self.vt.offset = sc.now
    self.vt.sched = None
    lock.on_acquire = lock.on_release = None
    h.rest = []
    h.rest_exc = None
    if drain_rest and err is None:
      if self.orig_lag and rest_via_hook:
        # what the daemon does at shutdown instead of waiting: the 'before shutdown' hook sets the lag to zero
        for name in self.shutdown_triggers:
          getattr(writer, name)()
        h.rest_via_hook = True
      elif self.orig_lag:
        # only a configured lag may make datapoints wait for the clock: move it past the youngest cached datapoint
        newest = max([t for pts in cache.values() for t in pts] or [0])
        self.vt.offset += max(self.orig_lag + 1000, newest - self.vt.time() + self.orig_lag + 1000)
      nones = 0
      for _ in range(10 * (len(h.final) + 2)):
        try:
          r = real_drain(cache)
        except BaseException as e:
          h.rest_exc = e
          break
        if r[0] is None:
          nones += 1
          if not cache or nones >= 3:
            break
          continue
        nones = 0
        h.rest.append((r[0], list(r[1])))
      h.left_after_rest = {m: dict(v) for m, v in cache.items() if v}
    for p in protos:
      try:
        from vlib import proto as _p
        _p.close(p)
      except Exception:
        pass
    # break the reference cycles of this run explicitly (scheduler <-> closures <-> history <-> cache): several hundred
    # thousand schedules run in one process
    sc.on_point = sc.on_switch = None
    sc.policy = None
    for t in sc.threads:
      t.fn = None
      t.thread = None
    sc.by_ident.clear()
    lock.sched = None
    try:
      del cache.drain_metric
    except AttributeError:
      pass
    return h


# ----------------------------------------------------------------------------------- oracles shared by checks
def check_conservation(h, lag=0):
  """C02 oracle.  Returns list of (sig, msg)."""
  out = []
  # batches sorted, no repeated timestamp
  for d in h.drains:
    pts = d.get('points') or []
    ts = [p[0] for p in pts]
    if ts != sorted(ts) or len(set(ts)) != len(ts):
      out.append(('batch-order', 'drain of %r returned timestamps %r (unsorted or repeated)' % (d.get('metric'), ts)))
  by_key = {}
  for s in h.stores:
    if s.get('refused') or 'exc' in s and False:
      continue
    by_key.setdefault((s['metric'], s['ts']), []).append(s)
  by_val = {s['value']: s for s in h.stores}
  seen_vals = {}
  drained_idx = {}   # key -> list of (store position in key sequence, drain)
  sp = getattr(h, 'self_prefix', None)
  mine = (lambda m: True) if sp is None else (lambda m: not m.startswith(sp))
  all_drains = [d for d in h.drains if d.get('metric') is not None and mine(d['metric'])]
  rest = [dict(metric=m, points=p, call=10 ** 9 + i, ret=10 ** 9 + i, rest=True) for i, (m, p) in enumerate(getattr(h, 'rest', [])) if mine(m)]
  for d in all_drains + rest:
    for (t, v) in d['points']:
      s = by_val.get(v)
      if s is None or s['metric'] != d['metric'] or s['ts'] != t:
        out.append(('phantom', 'drain of %r returned (%r, %r) which was never stored under that metric/timestamp' % (d['metric'], t, v)))
        continue
      if s.get('refused'):
        out.append(('refused-but-drained', 'value %r of refused store drained' % v))
        continue
      if v in seen_vals:
        out.append(('duplicate', 'value %r of (%r,%r) handed out by two drains' % (v, s['metric'], t)))
        continue
      seen_vals[v] = d
      if s['call'] > d['ret']:
        out.append(('time-travel', 'value %r drained before it was stored' % v))
      seq = by_key[(s['metric'], t)]
      drained_idx.setdefault((s['metric'], t), []).append((seq.index(s), d))
  final = getattr(h, 'left_after_rest', None)
  if final is None:
    final = h.final
  for key, seq in by_key.items():
    m, t = key
    n = len(seq)
    dl = sorted(drained_idx.get(key, []), key=lambda x: x[1]['ret'])
    idxs = [i for i, _ in dl]
    if idxs != sorted(idxs):
      out.append(('order', 'values of %r drained out of store order: %r' % (key, idxs)))
    fv = final.get(m, {}).get(t)
    if fv is not None:
      fs = by_val.get(fv)
      if fs is None or fs not in seq:
        out.append(('final-phantom', 'cache holds unknown value %r for %r' % (fv, key)))
        continue
      fi = seq.index(fs)
      if fi != n - 1:
        out.append(('last-write-lost', 'cache holds value #%d of %r although #%d was stored later' % (fi, key, n - 1)))
      if idxs and idxs[-1] >= fi:
        out.append(('duplicate-final', 'value #%d of %r both drained and still cached' % (fi, key)))
    else:
      if not idxs or idxs[-1] != n - 1:
        out.append(('lost', 'last accepted value of %r (store #%d of %d, value %r) neither drained nor cached; drained %r' % (
          key, n - 1, n, seq[-1]['value'], idxs)))
    # stale / lost in between
    for i, d in dl:
      if i + 1 < n and seq[i + 1]['ret'] < d['call']:
        out.append(('stale', 'drain returned value #%d of %r although #%d had been stored before the drain began' % (i, key, i + 1)))
    dset = set(idxs)
    for i in range(n - 1):
      if i in dset:
        continue
      # overwritten: legitimate only if no drain of this metric lies strictly between store i and store i+1
      for d in all_drains:
        if d['metric'] == m and d['call'] > seq[i]['ret'] and d['ret'] < seq[i + 1]['call']:
          out.append(('lost-between', 'value #%d of %r vanished although a drain of %r ran between it and the next store' % (i, key, m)))
          break
  # anything in the final cache must come from an accepted store
  for m, pts in final.items():
    if not mine(m):
      continue
    for t, v in pts.items():
      s = by_val.get(v)
      if s is None or s['metric'] != m or s['ts'] != t:
        out.append(('final-phantom', 'cache holds (%r,%r,%r) never stored' % (m, t, v)))
      elif s.get('refused'):
        out.append(('refused-but-cached', 'refused store %r is cached' % v))
  return out


def check_queries(h):
  out = []
  by_val = {s['value']: s for s in h.stores}
  by_key = {}
  for s in h.stores:
    if not s.get('refused'):
      by_key.setdefault((s['metric'], s['ts']), []).append(s)
  sp = getattr(h, 'self_prefix', None)
  drains = [d for d in h.drains if d.get('metric') is not None and (sp is None or not d['metric'].startswith(sp))]
  drained_in = {}
  for d in drains:
    for (t, v) in d['points']:
      drained_in[v] = d
  for q in h.queries:
    if 'result' not in q:
      continue
    for m in q['metrics']:
      got = q['result'].get(m, [])
      ts = [p[0] for p in got]
      if len(set(ts)) != len(ts):
        out.append(('query-repeat', 'query for %r returned a timestamp twice: %r' % (m, got)))
      gotd = dict(got)
      for t, v in got:
        s = by_val.get(v)
        if s is None or s['metric'] != m or s['ts'] != t or s.get('refused'):
          out.append(('query-phantom', 'query for %r returned (%r,%r) never accepted' % (m, t, v)))
          continue
        if s['call'] > q['ret']:
          out.append(('query-future', 'query returned a value stored later'))
        seq = by_key[(m, t)]
        i = seq.index(s)
        if i + 1 < len(seq) and seq[i + 1]['ret'] < q['call']:
          out.append(('query-stale', 'query for %r returned value #%d of ts %r although #%d was stored before the query' % (m, i, t, i + 1)))
        d = drained_in.get(v)
        if d is not None and d['ret'] < q['call']:
          out.append(('query-after-drain', 'query for %r returned (%r,%r) which a drain had already handed out' % (m, t, v)))
      # completeness: a value stably present during the whole query must be returned
      for (mm, t), seq in by_key.items():
        if mm != m:
          continue
        last_before = [s for s in seq if s['ret'] < q['call']]
        if not last_before:
          continue
        s = last_before[-1]
        disturbed = False
        for d in drains:
          if d['metric'] == m and d['ret'] > s['ret'] and d['call'] < q['ret']:
            disturbed = True
            break
        if disturbed:
          continue
        if gotd.get(t) != s['value']:
          out.append(('query-missing', 'query for %r does not show (%r,%r) stored before it and not drained; got %r' % (m, t, s['value'], got)))
  return out
