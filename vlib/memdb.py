"""Storage doubles (DESIGN.md 2.5): an in-memory TimeSeriesDatabase plugin with a call log and
fault plans, and stand-in `whisper` / `ceres` modules (file-system effect recorders only)."""
import os
import threading
import types

CALL_LOG = []          # dicts: seq, vt, thread, op, metric, args, outcome
_lock = threading.Lock()
FAULT_PLAN = {}        # call index (0-based over exists/create/write) -> exception class name
FAULT_OPS = {}         # persistent conditions: op ('exists' | 'create' | 'write') -> exception class name (e.g. disk full: every create raises)
FAULT_METRICS = {}     # damaged files: metric -> exception class name raised by every write to that metric
ON_CALL = [None]       # callable(entry) invoked on every backend call, outside the log's lock
CLOCK = [None]         # callable returning virtual time, set by harness
TICK = [None]          # callable returning the harness' logical clock
EXC = {'IOError': IOError, 'OSError': OSError, 'ValueError': ValueError,
       'Exception': Exception, 'KeyError': KeyError, 'RuntimeError': RuntimeError}


class InjectedFault(Exception):
  pass


import struct as _struct
EXC['struct.error'] = _struct.error          # what whisper raises for a timestamp that does not fit its 32-bit field
EXC['OverflowError'] = OverflowError
STRICT_TS = [False]    # when set, write() refuses a batch holding a timestamp outside [0, 2**32) the way whisper's update_many does


def _errno_fault(code):
  # what the operating system really reports: an OSError carrying an errno (interrupted call, try again, disk full, I/O error,
  # read-only file system, too many open files, permission denied)
  import errno as _e

  def make(msg):
    return OSError(getattr(_e, code), '%s (%s)' % (msg, code))
  return make


for _code in ('EINTR', 'EAGAIN', 'ENOSPC', 'EIO', 'EROFS', 'EMFILE', 'EACCES'):
  EXC[_code] = _errno_fault(_code)


EXC['InjectedFault'] = InjectedFault


def reset():
  del CALL_LOG[:]
  FAULT_PLAN.clear()
  FAULT_OPS.clear()
  FAULT_METRICS.clear()
  STRICT_TS[0] = False


def _log(op, metric, args):
  with _lock:
    seq = len(CALL_LOG)
    ent = dict(seq=seq, vt=(CLOCK[0]() if CLOCK[0] else None), tick=(TICK[0]() if TICK[0] else None), thread=threading.current_thread().name,
               op=op, metric=metric, args=args, outcome=None)
    CALL_LOG.append(ent)
  if ON_CALL[0] is not None:
    ON_CALL[0](ent)        # e.g. a sender that keeps delivering while the backend is busy
  return ent


def register_plugin():
  from carbon.database import TimeSeriesDatabase
  if 'verifmem' in TimeSeriesDatabase.plugins:
    return TimeSeriesDatabase.plugins['verifmem']

  class VerifMemDatabase(TimeSeriesDatabase):
    plugin_name = 'verifmem'
    aggregationMethods = ['average', 'sum', 'last', 'max', 'min']

    def __init__(self, settings):
      super(VerifMemDatabase, self).__init__(settings)
      self.files = {}     # metric -> dict(retentions, xff, method, points=[...])
      self.meta = {}

    def _maybe_fault(self, ent):
      name = FAULT_PLAN.get(ent['seq']) or FAULT_OPS.get(ent['op'])
      if not name and ent['op'] == 'write':
        name = FAULT_METRICS.get(ent['metric'])
      if name:
        ent['outcome'] = 'raise:' + name
        raise EXC[name]('injected fault at backend call %d (%s %s)' % (ent['seq'], ent['op'], ent['metric']))

    def exists(self, metric):
      ent = _log('exists', metric, None)
      self._maybe_fault(ent)
      r = metric in self.files
      ent['outcome'] = r
      return r

    def create(self, metric, retentions, xfilesfactor, aggregation_method):
      ent = _log('create', metric, (list(retentions) if retentions is not None else None,
                                     xfilesfactor, aggregation_method))
      self._maybe_fault(ent)
      self.files[metric] = dict(retentions=retentions, xff=xfilesfactor, method=aggregation_method, points=[])
      ent['outcome'] = 'ok'

    def write(self, metric, datapoints):
      pts = list(datapoints)
      ent = _log('write', metric, pts)
      self._maybe_fault(ent)
      if STRICT_TS[0] and any(not (0 <= t < 2 ** 32) for t, _ in pts):
        ent['outcome'] = 'raise:struct.error'
        raise _struct.error("'L' format requires 0 <= number <= 4294967295")
      if metric not in self.files:
        ent['outcome'] = 'raise:nofile'
        raise IOError('no such file for %s' % metric)
      self.files[metric]['points'].extend(pts)
      ent['outcome'] = 'ok'

    def getMetadata(self, metric, key):
      return self.meta.get((metric, key))

    def setMetadata(self, metric, key, value):
      old = self.meta.get((metric, key))
      self.meta[(metric, key)] = value
      return old

    def validateArchiveList(self, archiveList):
      if not archiveList:
        raise ValueError('empty archive list')

    def tag(self, *metrics):
      _log('tag', None, list(metrics))

  return VerifMemDatabase


# ------------------------------------------------------------------ stand-ins for absent libraries

def make_standin(name):
  if name == 'whisper':
    return _make_whisper()
  if name == 'ceres':
    return _make_ceres()
  raise ValueError(name)


def _make_whisper():
  m = types.ModuleType('whisper')
  m.__verif_standin__ = True
  m.aggregationMethods = ['average', 'sum', 'last', 'max', 'min', 'avg_zero', 'absmax', 'absmin']
  m.CAN_FALLOCATE = False
  m.CAN_LOCK = True
  m.CAN_FADVISE = False
  m.AUTOFLUSH = False
  m.LOCK = False
  m.FADVISE_RANDOM = False
  m.calls = []

  class WhisperException(Exception):
    pass

  class InvalidConfiguration(WhisperException):
    pass

  class CorruptWhisperFile(WhisperException):
    def __init__(self, error, path):
      Exception.__init__(self, error)
      self.error = error
      self.path = path

  class InvalidTimeInterval(WhisperException):
    pass

  class TimestampNotCovered(WhisperException):
    pass
  m.WhisperException = WhisperException
  m.InvalidConfiguration = InvalidConfiguration
  m.CorruptWhisperFile = CorruptWhisperFile
  m.InvalidTimeInterval = InvalidTimeInterval
  m.TimestampNotCovered = TimestampNotCovered
  m.NEXT_UPDATE_FAULT = [None]      # harness: name of an exception class the next update_many() raises

  def validateArchiveList(archiveList):
    if not archiveList:
      raise InvalidConfiguration('You must specify at least one archive configuration!')
  m.validateArchiveList = validateArchiveList

  def create(path, archiveList, xFilesFactor=None, aggregationMethod=None, sparse=False, useFallocate=False):
    m.calls.append(('create', path, archiveList, xFilesFactor, aggregationMethod))
    if os.path.exists(path):
      raise InvalidConfiguration('File %s already exists!' % path)
    with open(path, 'xb') as f:   # parent must exist, like the real library
      f.write(b'WSP-STANDIN')
  m.create = create

  def update_many(path, points):
    m.calls.append(('update_many', path, list(points)))
    fault, m.NEXT_UPDATE_FAULT[0] = m.NEXT_UPDATE_FAULT[0], None
    if fault == 'CorruptWhisperFile':
      raise CorruptWhisperFile('Unable to read header', path)
    if fault:
      raise {'IOError': IOError, 'InvalidTimeInterval': InvalidTimeInterval, 'TimestampNotCovered': TimestampNotCovered}[fault]('injected')
    with open(path, 'ab') as f:
      f.write(b'.')
  m.update_many = update_many

  def info(path):
    return {'aggregationMethod': 'average'}
  m.info = info

  def setAggregationMethod(path, value):
    return 'average'
  m.setAggregationMethod = setAggregationMethod
  return m


def _make_ceres():
  """Model of the upstream ceres.CeresTree path logic (library absent here): see DESIGN 2.5."""
  m = types.ModuleType('ceres')
  m.__verif_standin__ = True
  m.CAN_LOCK = True
  m.LOCK_WRITES = False
  m.MAX_SLICE_GAP = 80
  m.setDefaultNodeCachingBehavior = lambda b: None
  m.setDefaultSliceCachingBehavior = lambda b: None

  class CeresTree(object):
    def __init__(self, root):
      self.root = os.path.abspath(root)

    def getFilesystemPath(self, nodePath):
      return os.path.join(self.root, nodePath.replace('.', os.sep))

    def hasNode(self, nodePath):
      return os.path.exists(self.getFilesystemPath(nodePath))

    def createNode(self, nodePath, **properties):
      p = self.getFilesystemPath(nodePath)
      os.makedirs(p, 0o755)
      with open(os.path.join(p, '.ceres-node'), 'w') as f:
        f.write(repr(properties))

    def getNode(self, nodePath):
      raise NotImplementedError

    def store(self, nodePath, datapoints):
      p = self.getFilesystemPath(nodePath)
      with open(os.path.join(p, 'slice'), 'ab') as f:
        f.write(b'.')
  m.CeresTree = CeresTree
  return m
