"""Offline installation of third-party helpers (icontract) beside the repo's interpreter."""
import os
import subprocess

VERIF = os.path.dirname(os.path.dirname(os.path.abspath(__file__)))
DEPS = os.path.join(VERIF, '.deps')


def ensure_deps():
  if os.path.isdir(os.path.join(DEPS, 'icontract')):
    return True
  try:
    subprocess.run(['/venv/bin/pip', 'install', '-q', '--no-index', '--find-links', '/opt/veriftools/wheels',
                    '--target', DEPS, 'icontract'], check=True, stdout=subprocess.DEVNULL,
                   stderr=subprocess.DEVNULL, timeout=300)
    return True
  except Exception:
    return False


if __name__ == '__main__':
  print('deps ok' if ensure_deps() else 'deps unavailable (checks fall back to plain assertions)')
