"""Relay-side harness: real CarbonClientManager / factories / protocols on a fake reactor."""
import random
import struct

from twisted.internet import error
from twisted.python.failure import Failure


class Relay(object):
  def __init__(self, ns, fake, root):
    self.ns = ns
    self.fake = fake
    self.root = root
    from carbon import state
    self.state = state
    self.manager = state.client_manager

  def factories(self):
    return {d: f for d, f in self.manager.client_factories.items() if d is not None}

  def fix_clocks(self):
    for f in self.factories().values():
      f.clock = self.fake


def boot_relay(conf, files=None, program='carbon-relay', pipeline=('relay',)):
  """Boots carbon-relay through the real option parsing and the real setupPipeline wiring, on a FakeReactor."""
  from vlib import boot, fakereactor
  ns = boot.boot(program, conf, files=files)
  fake = fakereactor.FakeReactor()
  import carbon.client as client
  client.reactor = fake
  import twisted.internet.reactor as real_reactor   # noqa  (callWhenRunning on the real, never-run reactor is harmless)
  from carbon import service
  from twisted.application.service import MultiService
  root = MultiService()
  service.setupPipeline(list(pipeline), root, ns.settings)
  root.startService()
  rl = Relay(ns, fake, root)
  rl.fix_clocks()
  return rl


def deliver_disconnects(fake, reason=None):
  """A transport on which loseConnection() was called closes: deliver connectionLost in twisted's order."""
  n = 0
  for c in list(fake.connectors):
    if c.state == 'connected' and c.transport is not None and c.transport.disconnecting:
      c.h_connection_lost(reason or Failure(error.ConnectionDone()))
      n += 1
  return n


def decode_pickle_stream(data):
  import pickle
  out = []
  i = 0
  while i + 4 <= len(data):
    n = struct.unpack('!I', data[i:i + 4])[0]
    out.append(pickle.loads(data[i + 4:i + 4 + n]))
    i += 4 + n
  return out


def decode_line_stream(data):
  out = []
  for ln in data.split(b'\n'):
    if not ln.strip():
      continue
    name, v, t = ln.decode('utf-8').split()
    out.append((name, v, t))
  return out


def seed_all(seed):
  random.seed(seed)
