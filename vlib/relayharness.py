"""Relay-side harness: real CarbonClientManager / factories / protocols / RelayProcessor on a fake reactor.

`boot_relay()` boots carbon-relay once per process (SEND_QUEUE_* constants are frozen at import).  `Seq` builds a fresh
manager through carbon's own `setupRelayProcessor` for every event sequence, drives the event alphabet of C07/C09 and
keeps the boundary records (acceptances at factory.sendDatapoint, bytes on every StringTransport, counters)."""
import math
import pickle
import random
import struct

from twisted.internet import error
from twisted.python.failure import Failure


class Relay(object):
  def __init__(self, ns, fake, root):
    self.ns = ns
    self.fake = fake
    self.root = root
    from carbon import state
    self.state = state
    self.manager = state.client_manager

  def factories(self):
    return {d: f for d, f in self.manager.client_factories.items() if d is not None}

  def fix_clocks(self):
    for f in self.factories().values():
      f.clock = self.fake


def boot_relay(conf, files=None, program='carbon-relay', pipeline=('relay',)):
  """Boots carbon-relay through the real option parsing and the real setupPipeline wiring, on a FakeReactor."""
  from vlib import boot, fakereactor
  ns = boot.boot(program, conf, files=files)
  fake = fakereactor.FakeReactor()
  import carbon.client as client
  client.reactor = fake
  from carbon import service
  from twisted.application.service import MultiService
  root = MultiService()
  service.setupPipeline(list(pipeline), root, ns.settings)
  root.startService()
  rl = Relay(ns, fake, root)
  rl.fix_clocks()
  return rl


def deliver_disconnects(fake, reason=None):
  """A transport on which loseConnection() was called closes: deliver connectionLost in twisted's order."""
  n = 0
  for c in list(fake.connectors):
    if c.state == 'connected' and c.transport is not None and c.transport.disconnecting:
      c.h_connection_lost(reason or Failure(error.ConnectionDone()))
      n += 1
  return n


def decode_pickle_stream(data):
  out = []
  i = 0
  while i + 4 <= len(data):
    n = struct.unpack('!I', data[i:i + 4])[0]
    out.append(pickle.loads(data[i + 4:i + 4 + n]))
    i += 4 + n
  return out


def decode_line_stream(data):
  out = []
  for ln in data.split(b'\n'):
    if not ln.strip():
      continue
    name, v, t = ln.decode('utf-8').split()
    out.append((name, v, t))
  return out


def seed_all(seed):
  random.seed(seed)


# ----------------------------------------------------------------------------------------------- event sequences
ALPHABET = ['arrive', 'arrive_hp', 'conn_made', 'conn_lost', 'conn_failed', 'pause', 'resume',
            'adv_defer', 'adv_next', 'adv_60', 'stop']


class Seq(object):
  """One event sequence on a fresh relay (fresh router, manager, factories, fake reactor)."""

  def __init__(self, ns, dests, receivers=0):
    from vlib import fakereactor
    import carbon.client as client
    from carbon import service, state, events, instrumentation
    from twisted.application.service import MultiService
    self.ns = ns
    self.settings = ns.settings
    self.client = client
    self.state = state
    self.events = events
    self.instr = instrumentation
    random.seed(777)
    self.fake = fakereactor.FakeReactor()
    self.fake.transport_hw = getattr(ns, 'transport_hw', None)
    self.fake.capture_call_errors = True       # reported by report_call_errors()
    # every other sequence with the connection-quality reset switched on lets carbon's own closes take effect later
    Seq._instances = getattr(Seq, '_instances', 0) + 1
    self.lazy_close = bool(ns.settings.USE_RATIO_RESET) and Seq._instances % 2 == 0
    self.close_countdown = {}
    client.reactor = self.fake
    client.time = lambda: 1.0e9 + self.fake.seconds()      # lastResetTime / MIN_RESET_INTERVAL on the virtual clock
    instrumentation.stats.clear()
    instrumentation.prior_stats.clear()
    self.stat_base = {}        # counters moved out of instrumentation.stats by the periodic recordMetrics()
    self.resets_seen = {}
    state.metricReceiversPaused = False
    state.cacheTooFull = False
    old = state.client_manager
    if old is not None:
      events.resumeReceivingMetrics.removeHandler(old.client_factories[None].reinjectDatapoints)
    prev = getattr(ns, '_verif_prev_seq', None)
    if prev is not None:
      events.resumeReceivingMetrics.removeHandler(prev._fake_reinject)
      prev.close()
    ns._verif_prev_seq = self
    self.settings['DESTINATIONS'] = ['%s:%d:%s' % d for d in dests]
    self.dests = list(dests)
    self.root = MultiService()
    service.setupRelayProcessor(self.root, self.settings)     # carbon's own wiring
    self.manager = state.client_manager
    self.root.startService()
    # the limits the oracles use are derived here from the documented settings (carbon.conf.example), not read back from
    # carbon's own constants; a disagreement between the two is reported once per process by the checks
    self.maxq = self.settings.MAX_QUEUE_SIZE
    self.hard = self.maxq * self.settings.MAX_QUEUE_SIZE_HARD_PCT if self.settings.USE_FLOW_CONTROL else self.maxq
    self.low = self.maxq * self.settings.QUEUE_LOW_WATERMARK_PCT
    self.carbon_limits = (client.SEND_QUEUE_HARD_MAX, client.SEND_QUEUE_LOW_WATERMARK)
    self.cap = int(math.ceil(self.hard))
    self.nid = 0
    self.stopped = False
    self.violations = []
    self.entries = {}          # factory key -> list of dict(id, hp, outcome)
    self.reinjected = {}       # factory key -> list of ids removed by destinationDown
    self.hp_ids = set()
    self.log = []
    self.counters = dict(arrivals=0, hp_arrivals=0, accepted=0, refused=0, reinjected=0, writes_decoded=0, events=0,
                         inapplicable=0, stop_raised=0, pauses_seen=0)
    self.was_paused = False
    self.closed_by_harness = set()
    self.fmap = dict(self.manager.client_factories)
    for d, f in self.fmap.items():
      self._wrap_factory(d, f)
    self._wrap_fake(self.fmap[None])
    self.protos = []
    if receivers:
      self.add_receivers(receivers)

  # ---------------------------------------------------------------------------- recorders at the factory boundary
  def _fname(self, d):
    return 'fake' if d is None else '%s:%d:%s' % d

  def _wrap_factory(self, d, f):
    key = self._fname(d)
    self.entries[key] = []
    self.reinjected[key] = []
    if d is not None:
      f.clock = self.fake
    real_send = f.sendDatapoint
    real_hp = f.sendHighPriorityDatapoint
    seq = self

    def get_drops():
      return seq.instr.stats.get(getattr(f, 'fullQueueDrops', '?'), 0)

    def qsize():
      return len(f.queue)

    def send(metric, datapoint, _hp=False):
      q0, d0 = qsize(), get_drops()
      (real_hp if _hp else real_send)(metric, datapoint)
      q1, d1 = qsize(), get_drops()
      ident = int(datapoint[0])
      if q1 == q0 + 1 and d1 == d0:
        oc = 'accepted'
        seq.counters['accepted'] += 1
        if d is not None and not _hp and q0 >= seq.hard:
          seq.viol('queue/admitted-over-hard-limit', '%s admitted id %d with queue size %d >= hard limit %s' % (key, ident, q0, seq.hard))
      elif q1 == q0 and d1 == d0 + 1:
        oc = 'refused'
        seq.counters['refused'] += 1
        if q0 < seq.hard:
          seq.viol('queue/drop-below-hard-limit', '%s discarded id %d with queue size %d < hard limit %s' % (key, ident, q0, seq.hard))
      else:
        oc = 'anomalous'
        seq.viol('queue/uncounted-discard', '%s.sendDatapoint(id %d): queue %d -> %d, fullQueueDrops %d -> %d (neither enqueued nor counted)' % (
          key, ident, q0, q1, d0, d1))
      seq.entries[key].append(dict(id=ident, hp=_hp, outcome=oc))
      if _hp:
        seq.hp_ids.add(ident)
    f.sendDatapoint = send
    f.sendHighPriorityDatapoint = lambda m, dp: send(m, dp, True)
    if d is not None:
      real_down = f.destinationDown

      def down(destination):
        before = [int(x[1][0]) for x in f.queue]
        had = seq.manager.router.hasDestination(destination)
        n_before = dict((k, len(v)) for k, v in seq.entries.items())
        real_down(destination)
        after = [int(x[1][0]) for x in f.queue]
        if had and not seq.manager.router.hasDestination(destination) and before:
          # the dynamic router dropped this destination: its queue must have been re-injected, each datapoint exactly once
          new_ids = []
          for k, v in seq.entries.items():
            new_ids.extend(e['id'] for e in v[n_before[k]:])
          moved = []
          for i in before:
            if i in new_ids:
              new_ids.remove(i)
              moved.append(i)
            elif seq.stopped:
              seq.counters['post_stop_buffer_unchecked'] = seq.counters.get('post_stop_buffer_unchecked', 0) + 1
              moved.append(i)
            elif i not in after:
              seq.viol('reroute/lost', 'destination %s declared down with id %d queued, which was not re-routed to any factory' % (key, i))
              moved.append(i)
          still = [i for i in moved if i in after]
          if still and not seq.stopped:
            seq.viol('reroute/duplicated', 'destination %s declared down: ids %r were re-routed but are also still queued here' % (key, still))
          gone = list(before)
          for i in after:
            if i in gone:
              gone.remove(i)
          seq.reinjected[key].extend(gone)
          seq.counters['reinjected'] += len(moved)
        elif before != after:
          seq.viol('reroute/queue-changed', 'destinationDown(%s) changed the queue %r -> %r without removing the destination' % (key, before, after))
      f.destinationDown = down

  def _wrap_fake(self, ff):
    seq = self
    real = ff.reinjectDatapoints
    self.events.resumeReceivingMetrics.removeHandler(real)

    def reinject():
      before = [int(x[1][0]) for x in ff.queue]
      n_before = dict((k, len(v)) for k, v in seq.entries.items())
      real()
      after = [int(x[1][0]) for x in ff.queue]
      new_ids = []
      for k, v in seq.entries.items():
        new_ids.extend(e['id'] for e in v[n_before[k]:])
      gone = list(before)
      for i in after:
        if i in gone:
          gone.remove(i)
      for i in gone:
        if i in new_ids:
          new_ids.remove(i)
        elif seq.stopped:
          # after the orderly stop the manager has forgotten its factories; what happens to datapoints still buffered
          # for "no destination" is outside C07's statement
          seq.counters['post_stop_buffer_unchecked'] = seq.counters.get('post_stop_buffer_unchecked', 0) + 1
        else:
          seq.viol('reroute/buffer-lost', 'id %d buffered while no destination was available vanished without being re-injected' % i)
      seq.reinjected['fake'].extend(gone)
    self._fake_reinject = reinject
    self.events.resumeReceivingMetrics.addHandler(reinject)

  def viol(self, sig, msg):
    self.violations.append((sig, msg))

  def add_receivers(self, n):
    from twisted.internet.testing import StringTransport
    import carbon.protocols as P
    for _ in range(n):
      p = P.MetricLineReceiver()
      p.makeConnection(StringTransport())
      self.protos.append(p)

  def close(self):
    from vlib import proto as _p
    for p in self.protos:
      _p.close(p)

  # ---------------------------------------------------------------------------- helpers
  def factory(self, i):
    return self.fmap.get(self.dests[i])

  def connector(self, i):
    f = self.factory(i)
    return getattr(f, 'connector', None) if f is not None else None

  def apply(self, ev, i=0):
    """Returns False if the event is not applicable in the current state (nothing executed)."""
    self.counters['events'] += 1
    try:
      ok = getattr(self, 'ev_' + ev)(i)
    except Exception as e:
      # nothing an event does (arrivals, timers firing, connections coming and going) may raise out of carbon
      import traceback
      tb = traceback.extract_tb(e.__traceback__)
      where = ['%s:%s:%d' % (f.filename.rsplit('/', 1)[-1], f.name, f.lineno) for f in tb if '/carbon/' in f.filename][-2:]
      if not where:
        raise
      self.viol('exception/%s' % type(e).__name__, 'event %s raised %r at %s' % (ev, e, ' <- '.join(reversed(where))))
      ok = None
    if ok is False:
      self.counters['inapplicable'] += 1
      return False
    self.log.append((ev, i))
    self.after_event()
    return True

  def after_event(self):
    # transports on which the client called loseConnection() close now (one legitimate ordering)
    for c in list(self.fake.connectors):
      if c.state == 'connected' and c.transport is not None and c.transport.disconnecting:
        f = c.factory
        if self.lazy_close and not self.stopped:
          # the other legitimate ordering: a close that carbon asked for takes effect a few events later (a slow peer:
          # the transport first has to get rid of what it buffered); until then the factory still sees its protocol
          left = self.close_countdown.get(id(c))
          if left is None:
            left = self.close_countdown[id(c)] = 3
            self.counters['closes_taking_effect_later'] = self.counters.get('closes_taking_effect_later', 0) + 1
          if left > 0:
            self.close_countdown[id(c)] = left - 1
            continue
          self.close_countdown.pop(id(c), None)
        # a close requested by the connection quality monitor (USE_RATIO_RESET) is not the orderly stop's close
        rkey = 'destinations.%s.slowConnectionReset' % f.destinationName
        nres = self.stat(rkey)
        if nres > self.resets_seen.get(rkey, 0):
          self.resets_seen[rkey] = nres
          self.closed_by_harness.add(id(c))
          self.counters['quality_resets_observed'] = self.counters.get('quality_resets_observed', 0) + 1
        if self.stopped and len(f.queue) > 0 and id(c) not in self.closed_by_harness:
          self.viol('stop/closed-with-queue', 'destination %s closed by an orderly stop while %d datapoints were still queued' % (
            self._fname(f.destination), len(f.queue)))
        t = c.transport
        if self.stopped and id(c) not in self.closed_by_harness and t.close_requested_at is not None and len(t.value()) > t.close_requested_at:
          # "closes a connected destination only after its queue has been transmitted": nothing may still be on its way
          # to the transport when the close is requested
          self.viol('stop/closed-before-transmitted', 'destination %s: the orderly stop asked the transport to close after %d bytes, '
                    '%d more bytes were written afterwards' % (self._fname(f.destination), t.close_requested_at, len(t.value()) - t.close_requested_at))
        self.counters['closes_by_carbon_observed'] = self.counters.get('closes_by_carbon_observed', 0) + 1
        c.h_connection_lost(Failure(error.ConnectionDone()))
    self.report_call_errors()
    self.check_invariants()
    if self.state.metricReceiversPaused:
      self.was_paused = True
      self.counters['pauses_seen'] += 1

  # ---------------------------------------------------------------------------- events
  def ev_arrive(self, i):
    if self.stopped:
      return False
    self.nid += 1
    self.counters['arrivals'] += 1
    name = self.name_of(self.nid)
    self.instr.increment('metricsReceived')      # what the listener (played by the harness) counts for every datapoint
    # the destinations the router names for this series right now (the "no destination" buffer when it names none)
    try:
      want = set(self._fname(d) for d in self.manager.router.getDestinations(name)) or {'fake'}
    except Exception:
      want = None
    n0 = dict((k, len(v)) for k, v in self.entries.items())
    self.events.metricReceived(name, (self.nid, self.value_of(self.nid)))
    if want is not None and not self.stopped:
      took = set(k for k, v in self.entries.items() if any(e['id'] == self.nid for e in v[n0.get(k, 0):]))
      self.counters['routing_evaluations'] = self.counters.get('routing_evaluations', 0) + 1
      if self.settings.DESTINATION_POOL_REPLICAS:
        # connections to the same host:port form a pool: one member of the pool of every named destination takes the datapoint
        pool = lambda key: key if key == 'fake' else key.rsplit(':', 1)[0]
        if len(took) == len(set(pool(k) for k in took)):
          took, want = set(pool(k) for k in took), set(pool(k) for k in want)
      if took != want:
        self.viol('routing/not-where-the-router-says', 'id %d (%r) was handed to %r, the router names %r (live destinations %r)' % (
          self.nid, name, sorted(took), sorted(want), sorted(self._fname(d) for d in self.dests if self.manager.router.hasDestination(d))))

  def name_of(self, ident):
    """Every seventh datapoint is a series under the daemons' own prefix relayed for another daemon (carbon.agents.*):
    received datapoints like all others."""
    if ident % 7 == 3:
      return '%s.agents.host-b.id%d' % (self.settings.CARBON_METRIC_PREFIX, ident)
    return 'id%d' % ident

  def report_call_errors(self):
    # what a timer-driven call (deferred send, reconnect, statistics) raised: a real reactor logs it and goes on
    errs = getattr(self.fake, 'call_errors', None)
    while errs:
      fn, e = errs.pop(0)
      import traceback
      tb = traceback.extract_tb(e.__traceback__)
      where = ['%s:%s:%d' % (f.filename.rsplit('/', 1)[-1], f.name, f.lineno) for f in tb if '/carbon/' in f.filename][-2:]
      self.viol('exception/%s' % type(e).__name__, 'delayed call %s raised %r at %s' % (fn, e, ' <- '.join(reversed(where))))

  def value_of(self, ident):
    """The value is the id, except that now and then it is one of the values a float can also be: the infinities and a
    fraction (what a client may send, C01, a relay passes on)."""
    k = ident % 13
    if k == 5:
      return float('inf')
    if k == 9:
      return float('-inf')
    if k == 11:
      return ident + 0.25
    return float(ident)

  def ev_fill(self, i):
    """Macro event: datapoints keep arriving until the receivers get paused (bounded)."""
    if self.stopped or self.state.metricReceiversPaused:
      return False
    for _ in range(60):
      self.ev_arrive(i)
      if self.state.metricReceiversPaused:
        break
      if _ % 3 == 2:
        self.fake.advance(self.settings.TIME_TO_DEFER_SENDING)

  def ev_arrive_hp(self, i):
    if self.stopped:
      return False
    self.nid += 1
    self.counters['hp_arrivals'] += 1
    self.manager.sendHighPriorityDatapoint(self.name_of(self.nid), (self.nid, self.value_of(self.nid)))

  def ev_conn_made(self, i):
    c = self.connector(i)
    if c is None or c.state != 'connecting':
      return False
    c.h_connection_made()

  def ev_conn_lost(self, i):
    c = self.connector(i)
    if c is None or c.state != 'connected':
      return False
    self.closed_by_harness.add(id(c))
    c.h_connection_lost()

  def ev_conn_failed(self, i):
    c = self.connector(i)
    if c is None or c.state != 'connecting':
      return False
    c.h_connect_failed()

  def ev_pause(self, i):
    c = self.connector(i)
    if c is None or c.state != 'connected' or c.protocol is None or c.protocol.paused:
      return False
    if getattr(c.transport, 'producer', None) is None:
      return False
    c.protocol.pauseProducing()

  def ev_resume(self, i):
    c = self.connector(i)
    if c is None or c.state != 'connected' or c.protocol is None or not c.protocol.paused:
      return False
    if hasattr(c.transport, 'flush'):
      c.transport.flush()          # the socket buffer drained
    c.protocol.resumeProducing()

  def ev_stats(self, i):
    """The InstrumentationService's periodic tick: real recordMetrics() (rolls the counters over into prior_stats, which the
    connection quality monitor reads); the relay's self-metrics it generates are not injected into this sequence."""
    if self.stopped:
      return False
    for k, v in list(self.instr.stats.items()):
      if isinstance(v, (int, float)):
        self.stat_base[k] = self.stat_base.get(k, 0) + v
    if i % 2 == 1:
      # every other tick the relay's self-metrics go where they go in a daemon: through the generated pipeline into the
      # send queues (they are datapoints like any other there: queued, written, or discarded and counted)
      self.instr.recordMetrics()
      self.counters['stats_ticks_with_self_metrics'] = self.counters.get('stats_ticks_with_self_metrics', 0) + 1
    else:
      handlers = self.events.metricGenerated.handlers[:]
      del self.events.metricGenerated.handlers[:]
      try:
        self.instr.recordMetrics()
      finally:
        self.events.metricGenerated.handlers[:] = handlers
    self.counters['stats_ticks'] = self.counters.get('stats_ticks', 0) + 1

  def stat(self, k):
    return self.stat_base.get(k, 0) + self.instr.stats.get(k, 0)

  def ev_adv_defer(self, i):
    self.fake.advance(self.settings.TIME_TO_DEFER_SENDING)

  def ev_adv_next(self, i):
    calls = self.fake.getDelayedCalls()
    if not calls:
      return False
    t = min(c.getTime() for c in calls)
    self.fake.advance(max(0.0, t - self.fake.seconds()))

  def ev_adv_60(self, i):
    self.fake.advance(60)

  def ev_stop(self, i):
    if self.stopped:
      return False
    self.stopped = True
    # the connections that are up when the stop begins (one that is lost on the way ends that destination's part in the stop)
    self.conn_at_stop = {}
    for i in range(len(self.dests)):
      c = self.connector(i)
      if c is not None and c.state == 'connected' and c.transport is not None:
        self.conn_at_stop[i] = c.transport
    try:
      d = self.root.stopService()
    except Exception as e:
      self.counters['stop_raised'] += 1
      self.stop_exc = e
      return
    if d is not None and hasattr(d, 'addBoth'):
      d.addBoth(self._stop_complete)

  def _stop_complete(self, result):
    # The Deferred of stopService() is what twistd waits for before the reactor cuts every connection that is still open:
    # when it fires, no destination that has been connected since the stop began may have anything left to transmit.
    self.counters['stop_completions_observed'] = self.counters.get('stop_completions_observed', 0) + 1
    for i, dest in enumerate(self.dests):
      c = self.connector(i)
      f = self.fmap.get(dest)
      if c is None or f is None or c.state != 'connected' or c.transport is None or c.transport.disconnecting:
        continue
      if c.transport is not self.conn_at_stop.get(i):
        continue
      if len(f.queue) > 0:
        self.viol('stop/complete-with-queue', 'the orderly stop reported completion while connected destination %s still had %d datapoints queued' % (
          self._fname(dest), len(f.queue)))
    return result

  # ---------------------------------------------------------------------------- oracles
  def written(self, d):
    """Ids decoded from every transport of destination d, in connection order."""
    out = []
    for c, t in self.fake.transports:
      if c.factory.destination != d:
        continue
      data = t.value()
      if not data:
        continue
      if self.settings.DESTINATION_PROTOCOL == 'pickle':
        for msg in decode_pickle_stream(data):
          for (m, (ts, v)) in msg:
            out.append((int(ts), m, v))
      else:
        for (m, v, ts) in decode_line_stream(data):
          out.append((int(ts), m, float(v)))
    return out

  def check_invariants(self):
    from collections import Counter
    stats = self.instr.stats
    for d in self.dests:
      key = self._fname(d)
      f = self.fmap.get(d)
      if f is None:
        continue
      ents = self.entries[key]
      acc = [e for e in ents if e['outcome'] == 'accepted']
      w = self.written(d)
      wid = [x[0] for x in w]
      selfp = '%s.relays.' % self.settings.CARBON_METRIC_PREFIX
      for (i, m, v) in w:
        if m.startswith(selfp):
          continue            # the relay's own statistics (arbitrary values)
        if m != self.name_of(i) or v != self.value_of(i):
          self.viol('wire/altered', '%s: datapoint id %d written as (%r, %r)' % (key, i, m, v))
      q = [int(x[1][0]) for x in f.queue]
      cw, ca = Counter(wid), Counter(e['id'] for e in acc)
      for i, n in cw.items():
        if n > ca.get(i, 0):
          self.viol('wire/duplicate' if ca.get(i, 0) else 'wire/never-accepted',
                    '%s: id %d written %d times but accepted %d times' % (key, i, n, ca.get(i, 0)))
      # order: normal datapoints leave in arrival order
      wn = [i for i in wid if i not in self.hp_ids]
      an = [e['id'] for e in acc if not e['hp']]
      pos = 0
      for i in wn:
        try:
          pos = an.index(i, pos) + 1
        except ValueError:
          self.viol('wire/out-of-order', '%s: normal datapoints written in order %r but accepted in order %r' % (key, wn, an))
          break
      # conservation per destination
      rest = Counter(e['id'] for e in acc)
      rest.subtract(cw)
      rest.subtract(Counter(q))
      rest.subtract(Counter(self.reinjected[key]))
      bad = {i: n for i, n in rest.items() if n != 0}
      if bad:
        missing = sorted(i for i, n in bad.items() if n > 0)
        extra = sorted(i for i, n in bad.items() if n < 0)
        self.viol('conservation/%s' % ('lost' if missing else 'extra'),
                  '%s: accepted ids %r are neither written, queued nor re-routed; unexpected %r (queue=%r written=%r)' % (key, missing, extra, q, wid))
      # bound
      hp_in_q = sum(1 for i in q if i in self.hp_ids)
      if len(q) > self.cap + hp_in_q:
        self.viol('queue/bound', '%s: queue size %d exceeds hard limit %s (+%d self-metrics)' % (key, len(q), self.hard, hp_in_q))
      # counters
      sent = self.stat('destinations.%s.sent' % f.destinationName)
      if sent != len(wid):
        self.viol('counter/sent', '%s: sent counter %d but %d datapoints on the wire' % (key, sent, len(wid)))
      drops = self.stat(f.fullQueueDrops)
      nref = sum(1 for e in ents if e['outcome'] == 'refused')
      if drops != nref:
        self.viol('counter/fullQueueDrops', '%s: fullQueueDrops %d but %d refusals observed' % (key, drops, nref))
    # the "no destination available" buffer: accepted = still buffered + re-injected
    if not self.stopped:
      ff = self.fmap[None]
      rest = Counter(e['id'] for e in self.entries['fake'] if e['outcome'] == 'accepted')
      rest.subtract(Counter(int(x[1][0]) for x in ff.queue))
      rest.subtract(Counter(self.reinjected['fake']))
      missing = sorted(i for i, n in rest.items() if n > 0)
      if missing:
        self.viol('conservation/buffer-lost', 'ids %r were buffered while no destination was available and are neither buffered nor re-injected any more' % missing)
    self.counters['writes_decoded'] = sum(len(self.written(d)) for d in self.dests)
    self.counters['pauses_from_inside_write'] = sum(getattr(t, 'pauses_from_write', 0) for _, t in self.fake.transports)

  # ---------------------------------------------------------------------------- quiescence (C09 relay side)
  def quiesce(self, limit=400, keep_down=()):
    """Fire all timers, unpause transports and bring every destination up - except those in `keep_down`, whose
    connection attempts keep failing (their reconnect timers are the only pending calls at the end).
    Returns True if quiescent."""
    fails = 0
    for _ in range(limit):
      progressed = False
      for i in range(len(self.dests)):
        c = self.connector(i)
        if c is None:
          continue
        if c.state == 'connecting':
          if i in keep_down:
            if fails < 6:
              c.h_connect_failed()
              fails += 1
              progressed = True
          else:
            c.h_connection_made()
            progressed = True
        elif c.state == 'connected' and c.protocol is not None and c.protocol.paused:
          if hasattr(c.transport, 'flush'):
            c.transport.flush()
          c.protocol.resumeProducing()
          progressed = True
      calls = self.fake.getDelayedCalls()
      if keep_down and fails >= 6:
        # only the reconnect timers of the destinations that stay down may remain
        calls = [x for x in calls if not any(getattr(self.factory(i), '_callID', None) is x for i in keep_down)]
      if calls:
        t = min(c.getTime() for c in calls)
        self.fake.advance(max(0.0, t - self.fake.seconds()))
        progressed = True
      self.after_event()
      if not progressed:
        return True
    return False

  def paused_state(self):
    flags = dict(metricReceiversPaused=bool(self.state.metricReceiversPaused),
                 receivers_paused=[p.transport.producerState for p in self.protos],
                 queues=[len(self.factory(i).queue) if self.factory(i) is not None else None for i in range(len(self.dests))],
                 up=[(self.connector(i) is not None and self.connector(i).state == 'connected') for i in range(len(self.dests))],
                 destinations=self.manager.router.countDestinations())
    return flags
