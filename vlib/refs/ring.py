"""Reference carbon_ch / fnv1a_ch consistent-hash ring, written from the published algorithm
(graphite-web / carbon-c-relay descriptions).  Does not import carbon."""
import bisect
import hashlib

REPLICAS = 100


def pos_carbon(key):
  return int(hashlib.md5(key.encode('utf-8')).hexdigest()[:4], 16)


def fnv1a32(data):
  h = 0x811c9dc5
  for b in data:
    h ^= b
    h = (h * 0x01000193) & 0xffffffff
  return h


def pos_fnv(key):
  h = fnv1a32(key.encode('utf-8'))
  return (h >> 16) ^ (h & 0xffff)


def position(key, hash_type):
  return pos_fnv(key) if hash_type == 'fnv1a_ch' else pos_carbon(key)


def replica_key(node, i, hash_type):
  server, instance = node
  if hash_type == 'fnv1a_ch':
    return '%d-%s' % (i, instance)
  # python repr of the (server, instance) tuple, as the original implementation hashes it
  return '%s:%d' % (repr((server, instance)), i)


class RefRing(object):
  def __init__(self, nodes=(), hash_type='carbon_ch'):
    self.hash_type = hash_type
    self.entries = []       # sorted list of (position, node)
    self.nodes = []
    for n in nodes:
      self.add(n)

  def add(self, node):
    if node not in self.nodes:
      self.nodes.append(node)
    taken = set(p for p, _ in self.entries)
    for i in range(REPLICAS):
      p = position(replica_key(node, i, self.hash_type), self.hash_type)
      while p in taken:
        p += 1
      taken.add(p)
      bisect.insort(self.entries, (p, node))

  def remove(self, node):
    self.nodes = [n for n in self.nodes if n != node]
    self.entries = [e for e in self.entries if e[1] != node]

  def lookup_pos(self, pos):
    """Full preference list (each node once) walking clockwise from pos."""
    if not self.entries:
      return []
    n = len(self.entries)
    start = bisect.bisect_left(self.entries, (pos, ())) % n
    seen, out = set(), []
    want = len(set(self.nodes))
    for k in range(n):
      node = self.entries[(start + k) % n][1]
      if node not in seen:
        seen.add(node)
        out.append(node)
        if len(out) == want:
          break
    return out

  def lookup(self, key):
    return self.lookup_pos(position(key, self.hash_type))


_tables = {}


def key_table(hash_type):
  """One key per ring position 0..65535 (found by hashing candidate strings)."""
  if hash_type in _tables:
    return _tables[hash_type]
  tab = [None] * 65536
  left = 65536
  i = 0
  f = pos_fnv if hash_type == 'fnv1a_ch' else pos_carbon
  while left:
    k = 'k%x' % i
    p = f(k)
    if tab[p] is None:
      tab[p] = k
      left -= 1
    i += 1
  _tables[hash_type] = tab
  return tab
