"""Reference for aggregation-rules.conf, written from the documented format:

    output_template (frequency) = method input_pattern

input pattern: dot separated parts; `*` = one non-empty dot-free run (inside a part: any dot-free run, possibly empty);
`<field>` captures inside one dot-free segment; `<<field>>` may span dots; everything must match the WHOLE name.
Hand-written backtracking matcher (shortest capture first, leftmost first); no carbon imports, no regex.
"""
import math


def parse_rule(line):
  left, right = line.split('=', 1)
  out_pat, freq = left.split()
  method, in_pat = right.split()
  return dict(output=out_pat, frequency=int(freq.strip('()')), method=method, input=in_pat)


def parse_rules(text):
  rules = []
  for line in text.splitlines():
    line = line.strip()
    if not line or line.startswith('#'):
      continue
    rules.append(parse_rule(line))
  return rules


def tokens(pattern):
  toks = []
  parts = pattern.split('.')
  for pi, part in enumerate(parts):
    if pi:
      toks.append(('dot',))
    if '<<' in part and '>>' in part:
      i, j = part.find('<<'), part.find('>>')
      if part[:i]:
        toks.append(('lit', part[:i]))
      toks.append(('dfield', part[i + 2:j]))
      if part[j + 2:]:
        toks.append(('lit', part[j + 2:]))
    elif '<' in part and part.find('>') > part.find('<'):
      i, j = part.find('<'), part.find('>')
      if part[:i]:
        toks.append(('lit', part[:i]))
      toks.append(('field', part[i + 1:j]))
      if part[j + 1:]:
        toks.append(('lit', part[j + 1:]))
    elif part == '*':
      toks.append(('seg',))
    else:
      bits = part.split('*')
      for bi, b in enumerate(bits):
        if bi:
          toks.append(('run',))
        if b:
          toks.append(('lit', b))
  return toks


def match(pattern, name):
  """Returns dict of captured fields, or None."""
  toks = tokens(pattern)

  def rec(ti, pos, caps):
    if ti == len(toks):
      return caps if pos == len(name) else None
    t = toks[ti]
    if t[0] == 'dot':
      if pos < len(name) and name[pos] == '.':
        return rec(ti + 1, pos + 1, caps)
      return None
    if t[0] == 'lit':
      if name.startswith(t[1], pos):
        return rec(ti + 1, pos + len(t[1]), caps)
      return None
    if t[0] == 'seg':        # [^.]+  greedy, but no capture: any split that works
      end = pos
      while end < len(name) and name[end] != '.':
        end += 1
      for e in range(end, pos, -1):
        r = rec(ti + 1, e, caps)
        if r is not None:
          return r
      return None
    if t[0] == 'run':        # [^.]*
      end = pos
      while end < len(name) and name[end] != '.':
        end += 1
      for e in range(end, pos - 1, -1):
        r = rec(ti + 1, e, caps)
        if r is not None:
          return r
      return None
    if t[0] == 'field':      # shortest first, dot-free, non-empty
      e = pos + 1
      while e <= len(name) and name[e - 1] != '.':
        c2 = dict(caps)
        c2[t[1]] = name[pos:e]
        r = rec(ti + 1, e, c2)
        if r is not None:
          return r
        e += 1
      return None
    if t[0] == 'dfield':     # shortest first, may span dots, non-empty
      for e in range(pos + 1, len(name) + 1):
        c2 = dict(caps)
        c2[t[1]] = name[pos:e]
        r = rec(ti + 1, e, c2)
        if r is not None:
          return r
      return None
    raise ValueError(t)

  return rec(0, 0, {})


def fill(template, caps):
  out = template
  for k, v in caps.items():
    out = out.replace('<%s>' % k, v)
  return out


def aggregate_name(rule, name):
  caps = match(rule['input'], name)
  if caps is None:
    return None
  return fill(rule['output'], caps)


# --------------------------------------------------------------------------- aggregation functions
def percentile(values, factor):
  vs = sorted(values)
  rank = factor * (len(vs) - 1)
  lo = int(math.floor(rank))
  hi = int(math.ceil(rank))
  if lo == hi:
    return vs[lo]
  return vs[lo] * (hi - rank) + vs[hi] * (rank - lo)


def apply(method, values):
  if not values:
    return None
  if method == 'sum':
    return sum(values)
  if method == 'avg':
    return float(sum(values)) / len(values)
  if method == 'min':
    return min(values)
  if method == 'max':
    return max(values)
  if method == 'count':
    return len(values)
  if method.startswith('p'):
    f = {'p50': 0.5, 'p75': 0.75, 'p80': 0.8, 'p90': 0.9, 'p95': 0.95, 'p99': 0.99, 'p999': 0.999}[method]
    return percentile(values, f)
  raise ValueError(method)


METHODS = ['sum', 'avg', 'min', 'max', 'count', 'p50', 'p75', 'p80', 'p90', 'p95', 'p99', 'p999']
