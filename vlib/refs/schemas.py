"""Reference for storage-schemas.conf / storage-aggregation.conf, written from the documented formats."""
import re

from vlib.refs.relayrules import read_ini

UNITS = {'s': 1, 'm': 60, 'h': 3600, 'd': 86400, 'w': 604800, 'y': 31536000}
DEFAULT_RETENTIONS = [(60, 60 * 24 * 7)]
DEFAULT_AGG = (None, None)


def parse_retention(s):
  prec, pts = s.strip().split(':')

  def num(x):
    m = re.fullmatch(r'(\d+)([a-z]*)', x)
    if not m:
      raise ValueError(x)
    if m.group(2) == '':
      return int(m.group(1)), None
    return int(m.group(1)) * UNITS[m.group(2)], m.group(2)
  p, _ = num(prec)
  n, unit = num(pts)
  if unit is not None:
    n = n // p          # a duration: seconds / seconds-per-point
  return (p, n)


def sections(text):
  """The sections of the file in file order.  The files are INI files read with Python's ConfigParser: a section named
  exactly DEFAULT is that dialect's defaults section - every other section inherits the keys it does not set itself - and
  carbon additionally lists it like any other section at its position in the file."""
  secs = read_ini(text)
  defaults = {}
  for name, o in secs:
    if name == 'DEFAULT':
      defaults.update(o)
  if not defaults:
    return secs
  return [(name, dict(defaults, **o)) for name, o in secs]


def load_schemas(text):
  out = []
  for name, o in sections(text):
    if 'retentions' not in o or not o.get('pattern'):
      continue
    out.append((name, re.compile(o['pattern']), [parse_retention(x) for x in o['retentions'].split(',')]))
  return out


def retentions_for(schemas, metric):
  for name, rx, ret in schemas:
    if rx.search(metric):
      return ret
  return DEFAULT_RETENTIONS


def load_aggregation(text):
  out = []
  for name, o in sections(text):
    if not o.get('pattern'):
      continue
    xff = o.get('xfilesfactor')
    meth = o.get('aggregationmethod')
    out.append((name, re.compile(o['pattern']), (float(xff) if xff is not None else None, meth)))
  return out


def aggregation_for(aggs, metric):
  for name, rx, a in aggs:
    if rx.search(metric):
      return a
  return DEFAULT_AGG
