"""Reference encoders/decoders for the plaintext and pickle wire formats.  No carbon imports.

Well-formedness as used by C01/C11/C12/C15:
  line  = valid UTF-8, exactly three whitespace-separated fields <name> <value> <timestamp>, both numbers accepted by
          Python's float(), timestamp finite; a NaN value is well-formed but dropped (C12).
  frame = 4-byte big-endian length + pickle of a list/tuple whose entries are (str, (number, number)).
"""
import math
import pickle
import struct

LINE_MAX = 16384


def spell_float(x, r=None):
  """A textual spelling s with float(s) == x bit-for-bit."""
  x = float(x)
  if x == float('inf'):
    return (r.choice(['inf', 'Infinity', '+inf', 'INF', 'iNf']) if r else 'inf')
  if x == float('-inf'):
    return (r.choice(['-inf', '-Infinity', '-INF']) if r else '-inf')
  forms = [repr(x), '%.17g' % x, '%.17e' % x]
  if x == int(x) and abs(x) < 1e15 and not (x == 0 and math.copysign(1, x) < 0):
    forms += ['%d' % int(x), '%d.0' % int(x), '%d.' % int(x)]
    if x >= 0:
      forms.append('+%d' % int(x))
  s = r.choice(forms) if r else forms[0]
  assert struct.pack('>d', float(s)) == struct.pack('>d', x), (s, x)
  return s


def encode_line(name, value_text, ts_text, r=None, eol=b'\n'):
  if r is None:
    return ('%s %s %s' % (name, value_text, ts_text)).encode('utf-8') + eol
  # any run of characters str.split() treats as whitespace separates fields (line feeds and carriage returns end the line)
  seps = [' ', '  ', '\t', ' \t ', ' ', ' ', '\x0b', '\x0c', '\x1c', '\x1d', '\x1e', '\x1f', '\x85', '\u2028', '\u2029', '\xa0', '\u3000', ' \x0c ']
  lead = r.choice(['', '', '', ' ', '\t'])
  trail = r.choice(['', '', '', ' ', '\t', '  '])
  s = lead + name + r.choice(seps) + value_text + r.choice(seps) + ts_text + trail
  return s.encode('utf-8') + eol


def frame(payload):
  return struct.pack('!I', len(payload)) + payload


def encode_pickle_frame(entries, protocol=2, as_list=False):
  """entries: [(name, (timestamp, value))]"""
  data = [(n, (t, v)) for n, (t, v) in entries]
  if as_list:
    data = [[n, [t, v]] for n, (t, v) in entries]
  return frame(pickle.dumps(data, protocol=protocol))


# ------------------------------------------------------------------------------- reference decoding (C11)
def parse_line_bytes(line):
  """Returns ('ok', (name, (ts, value))) | ('nan', None) | ('bad', reason)."""
  try:
    s = line.decode('utf-8')
  except UnicodeDecodeError:
    return 'bad', 'utf8'
  parts = s.strip().split()
  if len(parts) != 3:
    return 'bad', 'fields'
  name, v, t = parts
  try:
    v = float(v)
    t = float(t)
  except ValueError:
    return 'bad', 'number'
  if t != t or t in (float('inf'), float('-inf')):
    return 'bad', 'timestamp'
  if v != v:
    return 'nan', None
  return 'ok', (name, (t, v))


def decode_line_stream(data, max_length=LINE_MAX):
  """Reference for the TCP plaintext listener: (datapoints, closed)."""
  out = []
  lines = data.split(b'\n')
  tail = lines.pop()
  for ln in lines:
    if len(ln) > max_length:
      return out, True
    k, v = parse_line_bytes(ln)
    if k == 'ok':
      out.append(v)
  if len(tail) > max_length:
    return out, True
  return out, False


def is_number(x):
  return isinstance(x, (int, float)) and not isinstance(x, bool) or isinstance(x, bool)


def entry_ok(e):
  """(name, (ts, value)) with str name and finite-timestamp numbers."""
  if not isinstance(e, (tuple, list)) or len(e) != 2:
    return None
  n, p = e
  if not isinstance(n, str):
    return None
  if not isinstance(p, (tuple, list)) or len(p) != 2:
    return None
  t, v = p
  if not isinstance(t, (int, float)) or not isinstance(v, (int, float)):
    return None
  try:
    t = float(t)
    v = float(v)
  except OverflowError:
    return None
  if t != t or t in (float('inf'), float('-inf')):
    return None
  if v != v:
    return ('nan',)
  return (n, (t, v))


# ------------------------------------------------------------------------------- python2-style pickles
def _py2_str(b, protocol, r=None):
  """A python2 `str` (8-bit string) the way cPickle writes it."""
  if protocol == 0:
    out = []
    for c in b:
      if c == 0x27 or c == 0x5c:
        out.append('\\' + chr(c))
      elif 0x20 <= c < 0x7f:
        out.append(chr(c))
      else:
        out.append('\\x%02x' % c)
    return b"S'" + ''.join(out).encode('ascii') + b"'\n"
  if len(b) < 256 and not (r is not None and r.random() < 0.2):
    return b'U' + bytes([len(b)]) + b
  return b'T' + struct.pack('<i', len(b)) + b


def _py2_num(x, protocol):
  if isinstance(x, bool):
    x = int(x)
  if isinstance(x, int):
    if protocol == 0:
      return (b'I%d\n' % x) if -2 ** 31 <= x < 2 ** 31 else (b'L%dL\n' % x)
    if 0 <= x < 256:
      return b'K' + bytes([x])
    if 0 <= x < 65536:
      return b'M' + struct.pack('<H', x)
    if -2 ** 31 <= x < 2 ** 31:
      return b'J' + struct.pack('<i', x)
    if protocol == 2:
      n = (x.bit_length() + 8) // 8
      return b'\x8a' + bytes([n]) + x.to_bytes(n, 'little', signed=True)
    return b'L%dL\n' % x
  if protocol == 0:
    return b'F' + repr(float(x)).encode('ascii') + b'\n'
  return b'G' + struct.pack('>d', float(x))


def encode_pickle_frame_py2(entries, protocol=2, r=None):
  """The frame a python2 client writes for [(name, (timestamp, value))]: metric names are 8-bit strings holding UTF-8
  (STRING / SHORT_BINSTRING / BINSTRING opcodes), not unicode objects.  No memo opcodes (they are optional)."""
  assert protocol in (0, 1, 2)
  out = [b'\x80\x02'] if protocol == 2 else []
  out.append(b'(l' if protocol == 0 else b']')
  if protocol != 0 and entries:
    out.append(b'(')
  for n, (t, v) in entries:
    s = _py2_str(n.encode('utf-8'), protocol, r)
    tt, vv = _py2_num(t, protocol), _py2_num(v, protocol)
    if protocol == 2:
      out.append(s + tt + vv + b'\x86\x86')
    else:
      out.append(b'(' + s + b'(' + tt + vv + b't' + b't')
    if protocol == 0:
      out.append(b'a')
  if protocol != 0 and entries:
    out.append(b'e')
  out.append(b'.')
  payload = b''.join(out)
  back = pickle.loads(payload, encoding='utf-8')
  assert [(a, tuple(b)) for a, b in back] == [(n, (t, v)) for n, (t, v) in entries] or any(
    isinstance(x, float) and x != x for _, tv in entries for x in tv), (payload, back)
  return frame(payload)


def encode_pickle_frame_py2_raw(entries, protocol=2, r=None):
  """Like encode_pickle_frame_py2 but the names are given as raw bytes (they need not be UTF-8); no self-check."""
  out = [b'\x80\x02'] if protocol == 2 else []
  out.append(b'(l' if protocol == 0 else b']')
  if protocol != 0 and entries:
    out.append(b'(')
  for n, (t, v) in entries:
    s_ = _py2_str(n, protocol, r)
    tt, vv = _py2_num(t, protocol), _py2_num(v, protocol)
    if protocol == 2:
      out.append(s_ + tt + vv + b'\x86\x86')
    else:
      out.append(b'(' + s_ + b'(' + tt + vv + b't' + b't')
    if protocol == 0:
      out.append(b'a')
  if protocol != 0 and entries:
    out.append(b'e')
  out.append(b'.')
  return frame(b''.join(out))
