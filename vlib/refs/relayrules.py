"""Reference evaluator for relay-rules.conf, written from the documented format (conf/relay-rules.conf.example):
sections are tried in file order, first match wins unless `continue = true`, exactly one `default = true` section is tried
last; patterns are case-insensitive regex searches.  Own order-preserving INI reader."""
import re

TRUE = {'1', 'yes', 'true', 'on'}
FALSE = {'0', 'no', 'false', 'off'}


def read_ini(text):
  sections = []
  cur = None
  for raw in text.splitlines():
    line = raw.strip()
    if not line or line[0] in '#;':
      continue
    if line.startswith('[') and line.endswith(']'):
      cur = (line[1:-1], {})
      sections.append(cur)
      continue
    if cur is None:
      continue
    if '=' in line:
      k, v = line.split('=', 1)
    elif ':' in line:
      k, v = line.split(':', 1)
    else:
      continue
    cur[1][k.strip().lower()] = v.strip()
  return sections


def parse_dest(s):
  s = s.strip()
  if s.startswith('['):
    host, rest = s[1:].split(']:', 1)
  else:
    host, rest = s.split(':', 1)
  if ':' in rest:
    port, inst = rest.split(':', 1)
  else:
    port, inst = rest, None
  return (host, int(port), inst)


def load(text):
  rules = []
  default = None
  for name, opts in read_ini(text):
    dests = [parse_dest(x) for x in opts['destinations'].split(',')]
    if 'pattern' in opts:
      cont = opts.get('continue', 'false').lower() in TRUE
      rules.append(dict(name=name, regex=re.compile(opts['pattern'], re.I), dests=dests, cont=cont))
    elif 'default' in opts:
      if opts['default'].lower() in TRUE:
        default = dict(name=name, regex=None, dests=dests, cont=False)
  rules.append(default)
  return rules


def route(rules, configured, metric):
  out = set()
  for rule in rules:
    if rule['regex'] is None or rule['regex'].search(metric):
      for d in rule['dests']:
        if d in configured:
          out.add(d)
      if not rule['cont']:
        break
  return out
