"""Reference for tagged series names, written from the graphite tag documentation.  No carbon imports."""
import itertools

PROHIBITED_KEY = ';!^='


def valid_tag(k, v):
  if not k or not v:
    return False
  if any(c in k for c in PROHIBITED_KEY):
    return False
  if ';' in v or v[0] == '~':
    return False
  return True


def valid_name(name):
  return bool(name.lstrip('~')) and ';' not in name


def carbon_spelling(name, pairs):
  return name + ''.join(';%s=%s' % (k, v) for k, v in pairs)


def om_escape(v):
  return v.replace('\\', '\\\\').replace('"', '\\"')


def openmetrics_spelling(name, pairs):
  return name + '{' + ','.join('%s="%s"' % (k, om_escape(v)) for k, v in pairs) + '}'


def permutations(pairs):
  return itertools.permutations(pairs)


def split_canonical(path):
  """Independent splitter of a canonical carbon-syntax path: (head, frozenset of (k, v))."""
  parts = path.split(';')
  head = parts[0]
  tags = []
  for seg in parts[1:]:
    k, _, v = seg.partition('=')
    tags.append((k, v))
  return head, tags


def is_openmetrics_shaped(path):
  return path[-2:] == '"}' and '{' in path


def ref_parse_carbon(path):
  """Reference reading of a carbon-syntax path: (metric, [(k, v), ...]) or None when it violates the tag rules.
  The first segment is the metric; every other segment must be key=value with a valid key and value."""
  segs = path.split(';')
  metric = segs[0]
  if not metric or not metric.lstrip('~'):
    return None
  pairs = []
  for seg in segs[1:]:
    if '=' not in seg:
      return None
    k, v = seg.split('=', 1)
    if not valid_tag(k, v):
      return None
    pairs.append((k, v))
  return metric, pairs
