"""Reference for tagged series names, written from the graphite tag documentation.  No carbon imports."""
import itertools

PROHIBITED_KEY = ';!^='


def valid_tag(k, v):
  if not k or not v:
    return False
  if any(c in k for c in PROHIBITED_KEY):
    return False
  if ';' in v or v[0] == '~':
    return False
  return True


def valid_name(name):
  return bool(name.lstrip('~')) and ';' not in name


def carbon_spelling(name, pairs):
  return name + ''.join(';%s=%s' % (k, v) for k, v in pairs)


def om_escape(v):
  return v.replace('\\', '\\\\').replace('"', '\\"')


def openmetrics_spelling(name, pairs):
  return name + '{' + ','.join('%s="%s"' % (k, om_escape(v)) for k, v in pairs) + '}'


def permutations(pairs):
  return itertools.permutations(pairs)


def split_canonical(path):
  """Independent splitter of a canonical carbon-syntax path: (head, frozenset of (k, v))."""
  parts = path.split(';')
  head = parts[0]
  tags = []
  for seg in parts[1:]:
    k, _, v = seg.partition('=')
    tags.append((k, v))
  return head, tags


def is_openmetrics_shaped(path):
  return path[-2:] == '"}' and '{' in path


def ref_parse_carbon(path):
  """Reference reading of a carbon-syntax path: (metric, [(k, v), ...]) or None when it violates the tag rules.
  The first segment is the metric; every other segment must be key=value with a valid key and value."""
  segs = path.split(';')
  metric = segs[0]
  if not metric or not metric.lstrip('~'):
    return None
  pairs = []
  for seg in segs[1:]:
    if '=' not in seg:
      return None
    k, v = seg.split('=', 1)
    if not valid_tag(k, v):
      return None
    pairs.append((k, v))
  return metric, pairs


def ref_parse_openmetrics(path):
  """Reference reading of an OpenMetrics-shaped path metric{k="v",k="v"}: (metric, [(k, v)...]), None when a label is
  structurally broken or violates the tag rules, 'unspec' where the documentation leaves the reading open (escapes other
  than \\" and \\\\, a trailing comma, a metric part containing ';' or a second '{').  The grammar is deterministic: a key
  runs up to the first '=', the value is a double-quoted string, labels are separated by single commas."""
  body = path[:-1]
  metric, brace, raw = body.partition('{')
  if not brace:
    return 'unspec'
  if '{' in raw or ';' in metric:
    return 'unspec'
  if not metric or not metric.lstrip('~'):
    return None
  pairs = []
  pos = 0
  n = len(raw)
  if n == 0:
    return 'unspec'
  while pos < n:
    eq = raw.find('=', pos)
    if eq < 0:
      return None                       # a label without '='
    k = raw[pos:eq]
    if eq + 1 >= n or raw[eq + 1] != '"':
      return None                       # unquoted value
    i = eq + 2
    v = []
    closed = False
    while i < n:
      c = raw[i]
      if c == '\\':
        if i + 1 < n and raw[i + 1] in '"\\':
          v.append(raw[i + 1])
          i += 2
          continue
        return 'unspec'                  # another escape, or a dangling backslash
      if c == '"':
        closed = True
        i += 1
        break
      v.append(c)
      i += 1
    if not closed:
      return None
    v = ''.join(v)
    if not valid_tag(k, v):
      return None
    pairs.append((k, v))
    if i < n:
      if raw[i] != ',':
        return None                     # junk between the closing quote and the next label
      i += 1
      if i == n:
        return 'unspec'                  # trailing comma
    pos = i
  return metric, pairs


def canonical(path):
  """Reference canonical form of a well-formed path in either syntax (the path itself when it is not tagged / not well-formed)."""
  ref = ref_parse_openmetrics(path) if is_openmetrics_shaped(path) else ref_parse_carbon(path)
  if ref is None or ref == 'unspec':
    return path
  metric, pairs = ref
  if not pairs:
    return path
  return metric + ''.join(';%s=%s' % kv for kv in sorted((k, v) for k, v in pairs if k != 'name'))
