"""Oracle over the writer loop's boundary records (C03, C04): drained batches <-> backend call log <-> counters / log events."""
from collections import Counter

KEYS = ('committedPoints', 'creates', 'droppedCreates', 'errors')


def check_writer_accounting(h):
  """Returns (violations [(sig, msg)], per-batch outcomes {value: outcome})."""
  out = []
  outcome_of_value = {}
  backend = [e for e in h.backend if e['op'] in ('exists', 'create', 'write')]
  # boundaries: start, every drain call, end
  bounds = [dict(call=0, stats0=dict((k, 0) for k in KEYS), logerr0=0, metric=None, points=[], pre=True)]
  bounds.extend(h.drains)
  end = dict(call=h.end_tick + 1, stats0=dict((k, h.stats.get(k, 0)) for k in KEYS), logerr0=len(h.log_errors))
  for i, b in enumerate(bounds):
    nxt = bounds[i + 1] if i + 1 < len(bounds) else end
    ev = [e for e in backend if b['call'] <= e['tick'] < nxt['call']]
    after_ret = [e for e in ev if e['tick'] > b.get('ret', b['call'])]
    delta = dict((k, nxt['stats0'][k] - b['stats0'][k]) for k in KEYS)
    logerr = nxt['logerr0'] - b['logerr0']
    writes = [e for e in ev if e['op'] == 'write']
    creates = [e for e in ev if e['op'] == 'create']
    ok_writes = [e for e in writes if e['outcome'] == 'ok']
    bad_writes = [e for e in writes if e['outcome'] != 'ok']
    batch = b if (b.get('metric') is not None) else None
    # backend-level checks
    for e in writes:
      if e['outcome'] == 'raise:nofile':
        out.append(('write-before-create', 'write(%r) although the backend has no file for it (exists() gate missing?)' % e['metric']))
      if batch is None:
        out.append(('write-without-batch', 'write(%r, %r) with no drained batch in flight' % (e['metric'], e['args'])))
      else:
        if e['metric'] != batch['metric']:
          out.append(('wrong-metric', 'batch of %r written under %r' % (batch['metric'], e['metric'])))
        if Counter(map(tuple, e['args'])) != Counter(map(tuple, batch['points'])):
          out.append(('points-altered', 'batch %r of %r written as %r' % (batch['points'], batch['metric'], e['args'])))
    if len(ok_writes) > 1:
      out.append(('written-twice', 'batch of %r written by %d successful write calls' % (batch and batch['metric'], len(ok_writes))))
    # counters
    exp_committed = sum(len(e['args']) for e in ok_writes)
    if delta['committedPoints'] != exp_committed:
      out.append(('committedPoints', 'committedPoints moved by %d but %d points were written successfully' % (delta['committedPoints'], exp_committed)))
    exp_creates = sum(1 for e in creates if e['outcome'] == 'ok')
    if delta['creates'] != exp_creates:
      out.append(('creates-counter', 'creates moved by %d but %d create calls succeeded' % (delta['creates'], exp_creates)))
    exp_err = len([e for e in bad_writes]) + sum(1 for e in creates if e['outcome'] != 'ok')
    if delta['errors'] != exp_err:
      out.append(('errors-counter', 'errors moved by %d but %d create/write calls failed' % (delta['errors'], exp_err)))
    if batch is not None:
      # the exists() gate is the first backend call after the drain returned; later exists() calls in the same
      # interval belong to the create loop of the next pass
      gate = after_ret[0] if (after_ret and after_ret[0]['op'] == 'exists' and after_ret[0]['metric'] == batch['metric']) else None
      said_no = gate is not None and gate['outcome'] is False
      if ok_writes:
        oc = 'written'
      elif bad_writes:
        oc = 'errored' if (delta['errors'] >= 1 or logerr >= 1) else None
      elif delta['droppedCreates'] >= 1:
        oc = 'dropped'
      elif logerr >= 1 or delta['errors'] >= 1:
        oc = 'errored'
      else:
        oc = None
      if oc is None and not b.get('exc'):
        out.append(('silently-discarded', 'batch %r of %r was neither written, nor counted as dropped create, nor reported as an error '
                    '(backend calls after the drain: %r)' % (batch['points'], batch['metric'], [(e['op'], e['outcome']) for e in after_ret])))
      exp_dropped = 1 if (not writes and said_no) else 0
      if delta['droppedCreates'] != exp_dropped:
        out.append(('droppedCreates-counter', 'droppedCreates moved by %d for batch of %r (exists said no: %s, writes: %d)' % (
          delta['droppedCreates'], batch['metric'], said_no, len(writes))))
      for p in batch['points']:
        outcome_of_value[p[1]] = oc
    else:
      if delta['droppedCreates']:
        out.append(('droppedCreates-counter', 'droppedCreates moved by %d with no batch in flight' % delta['droppedCreates']))
  return out, outcome_of_value
