"""Worker: runs one configuration of one check in this fresh process and writes a JSON result."""
import importlib
import json
import os
import sys
import traceback


def main():
  prop, cfg_json, out = sys.argv[1], sys.argv[2], sys.argv[3]
  from vlib import verdict
  cfg = json.loads(cfg_json)
  os.environ['VERIF_CFG_NAME'] = '%s/%s' % (prop, cfg.get('name', ''))
  mod = importlib.import_module(verdict.CHECKS[prop])
  res = verdict.Result()
  try:
    mod.run_config(cfg, res)
  except BaseException:
    res.inconc('harness exception: ' + traceback.format_exc()[-1800:])
  data = res.to_json()
  tmp = out + '.tmp'
  with open(tmp, 'w') as f:
    json.dump(data, f, default=repr)
  os.replace(tmp, out)
  sys.stdout.flush()
  os._exit(0)   # do not wait for parked daemon threads


if __name__ == '__main__':
  main()
