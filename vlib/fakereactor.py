"""Fake reactor / virtual clock for the client and aggregator code (DESIGN.md 2.4)."""
from twisted.internet import error
from twisted.internet.task import Clock
from twisted.internet.testing import StringTransport
from twisted.python.failure import Failure


class PausingTransport(StringTransport):
  """StringTransport that, like twisted's FileDescriptor, pauses its streaming producer from inside write() once more
  than `hw` bytes are waiting to be flushed.  `flush()` models the socket draining."""

  def __init__(self, hw=None):
    StringTransport.__init__(self)
    self.hw = hw
    self.unflushed = 0
    self.pauses_from_write = 0
    self.close_requested_at = None

  def _wrote(self, n):
    self.unflushed += n
    if self.hw is not None and self.unflushed > self.hw and self.producer is not None and self.streaming:
      if not getattr(self.producer, 'paused', False):
        self.pauses_from_write += 1
        self.producer.pauseProducing()

  def write(self, data):
    StringTransport.write(self, data)
    self._wrote(len(data))

  def writeSequence(self, data):
    data = list(data)
    StringTransport.writeSequence(self, data)
    self._wrote(sum(len(x) for x in data))

  def flush(self):
    self.unflushed = 0

  def loseConnection(self):
    if self.close_requested_at is None:
      self.close_requested_at = len(self.value())     # what had been handed to the transport when the close was requested
    StringTransport.loseConnection(self)


class FakeConnector(object):
  """Mimics twisted.internet.base.BaseConnector closely enough for ReconnectingClientFactory."""

  def __init__(self, reactor, host, port, factory):
    self.reactor = reactor
    self.host = host
    self.port = port
    self.factory = factory
    self.state = 'disconnected'
    self.factoryStarted = 0
    self.transport = None
    self.protocol = None
    self.connect_calls = 0
    self.stop_calls = 0

  def getDestination(self):
    from twisted.internet.address import IPv4Address
    return IPv4Address('TCP', self.host, self.port)

  def connect(self):
    if self.state != 'disconnected':
      raise RuntimeError("can't connect in this state")
    self.state = 'connecting'
    self.connect_calls += 1
    if not self.factoryStarted:
      self.factory.doStart()
      self.factoryStarted = 1
    self.factory.startedConnecting(self)

  def stopConnecting(self):
    if self.state != 'connecting':
      raise error.NotConnectingError("we're not trying to connect")
    self.stop_calls += 1
    self.state = 'disconnected'
    self.reactor.stopped_connecting.append(self)
    # twisted: connectionFailed(UserError) -> factory.clientConnectionFailed
    self._fail(Failure(error.UserError()))

  def disconnect(self):
    if self.state == 'connecting':
      self.stopConnecting()
    elif self.state == 'connected':
      self.transport.loseConnection()

  # -------- harness-driven life-cycle events, delivered in twisted's order
  def h_connection_made(self):
    """The pending attempt succeeds."""
    assert self.state == 'connecting', self.state
    self.state = 'connected'
    proto = self.factory.buildProtocol(self.getDestination())
    self.protocol = proto
    t = PausingTransport(getattr(self.reactor, 'transport_hw', None))
    self.transport = t
    self.reactor.transports.append((self, t))
    proto.makeConnection(t)
    return t

  def h_connection_lost(self, reason=None):
    assert self.state == 'connected', self.state
    reason = reason or Failure(error.ConnectionLost())
    self.state = 'disconnected'
    proto, self.protocol = self.protocol, None
    t = self.transport
    if t is not None and getattr(t, 'producer', None) is not None:
      # twisted's abstract.FileDescriptor.connectionLost stops the producer
      try:
        p = t.producer
        t.producer = None
        p.stopProducing()
      except Exception:
        pass
    proto.connectionLost(reason)
    self.factory.clientConnectionLost(self, reason)
    if self.state == 'disconnected' and self.factoryStarted and not self._will_retry():
      pass

  def _will_retry(self):
    return getattr(self.factory, '_callID', None) is not None

  def h_connect_failed(self, reason=None):
    assert self.state == 'connecting', self.state
    self.state = 'disconnected'
    self._fail(reason or Failure(error.ConnectionRefusedError()))

  def _fail(self, reason):
    self.factory.clientConnectionFailed(self, reason)


class FakeReactor(Clock):
  """Clock + the handful of reactor methods carbon.client / carbon.writer / aggregator use."""

  def __init__(self):
    Clock.__init__(self)
    self.running = True
    self.connectors = []
    self.transports = []
    self.stopped_connecting = []
    self.triggers = []
    self.when_running = []

  capture_call_errors = False      # opt-in: behave like a real reactor, which logs what a delayed call raises and goes on

  def advance(self, amount):
    if not self.capture_call_errors:
      return Clock.advance(self, amount)
    self.rightNow += amount
    self._sortCalls()
    while self.calls and self.calls[0].getTime() <= self.seconds():
      call = self.calls.pop(0)
      call.called = 1
      try:
        call.func(*call.args, **call.kw)
      except Exception as e:
        if not hasattr(self, 'call_errors'):
          self.call_errors = []
        self.call_errors.append((getattr(call.func, '__qualname__', repr(call.func)), e))
      self._sortCalls()

  def connectTCP(self, host, port, factory, timeout=30, bindAddress=None):
    c = FakeConnector(self, host, port, factory)
    self.connectors.append(c)
    c.connect()
    return c

  connectSSL = None

  def callWhenRunning(self, f, *a, **kw):
    self.when_running.append((f, a, kw))

  def addSystemEventTrigger(self, phase, event, f, *a, **kw):
    self.triggers.append((phase, event, f, a, kw))

  def callInThread(self, f, *a, **kw):
    raise NotImplementedError

  def pending(self):
    return [c for c in self.getDelayedCalls()]
