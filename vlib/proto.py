"""Harness around the real listener protocols (line / udp / pickle) on StringTransports."""
from twisted.internet.error import ConnectionDone
from twisted.internet.testing import StringTransport
from twisted.python.failure import Failure


class Recorder(object):
  def __init__(self):
    self.got = []

  def __call__(self, metric, datapoint):
    self.got.append((metric, datapoint))

  def take(self):
    g = self.got
    self.got = []
    return g


def install_recorder():
  from carbon import events
  rec = Recorder()
  events.metricReceived.addHandler(rec)
  return rec


class FakeUDPPort(object):
  """What a DatagramProtocol sees of twisted's udp.Port: loseConnection() / stopListening() close the socket for good."""

  maxPacketSize = 8192      # as twisted.internet.udp.Port

  def __init__(self):
    self.closed = False

  def loseConnection(self):
    self.closed = True

  stopListening = loseConnection

  def getHost(self):
    from twisted.internet.address import IPv4Address
    return IPv4Address('UDP', '0.0.0.0', 2003)

  def write(self, *a, **k):
    pass


_zero_calls = []
_hooked = [False]


def _hook_reactor():
  """Remember the calls scheduled on the global reactor with (next to) no delay: those are what a running reactor would
  execute before the next read.  Looking through all pending calls instead is quadratic (idle timers pile up)."""
  if _hooked[0]:
    return
  _hooked[0] = True
  from twisted.internet import reactor
  real = reactor.callLater

  def callLater(delay, f, *a, **kw):
    dc = real(delay, f, *a, **kw)
    if delay <= 0.001:
      _zero_calls.append(dc)
    return dc
  reactor.callLater = callLater


def run_due_reactor_calls(preexisting=()):
  """What a running reactor does between two reads: calls scheduled with reactor.callLater(0, ...) (by carbon, during this
  session) are run.  The global reactor is never started in the harness, so its due calls are run by hand."""
  n = 0
  for _ in range(200):
    if not _zero_calls:
      break
    due, _zero_calls[:] = list(_zero_calls), []
    for dc in due:
      if not dc.active():
        continue
      f, a, kw = dc.func, dc.args, dc.kw
      dc.cancel()
      f(*a, **kw)
      n += 1
  return n


def tcp_session(cls, segments, rec, keep=False, clock=None, gaps=None):
  """Feed `segments` to a fresh protocol instance.  Returns dict(got, exc, disconnecting, exc_at).
  With `clock` (a task.Clock) the protocol's timers run on it and gaps[i] seconds pass before segment i."""
  p = cls()
  t = StringTransport()
  if clock is not None:
    p.callLater = clock.callLater        # TimeoutMixin's hook for its idle timer
  _hook_reactor()
  pre = ()
  del _zero_calls[:]
  p.makeConnection(t)
  rec.take()
  exc = None
  exc_at = None
  ncalls = 0
  for i, seg in enumerate(segments):
    if clock is not None and gaps:
      clock.advance(gaps[i % len(gaps)])
    if t.disconnecting:
      break          # loseConnection() stops reading (twisted's FileDescriptor): nothing more is delivered to the protocol
    try:
      p.dataReceived(seg)
      ncalls += run_due_reactor_calls(pre)
    except Exception as e:   # must never happen (C11); in production twisted would drop the connection
      exc = e
      exc_at = i
      break
  got = rec.take()
  disconnecting = t.disconnecting
  out = dict(got=got, exc=exc, exc_at=exc_at, disconnecting=disconnecting, proto=p, transport=t, reactor_calls=ncalls)
  if not keep:
    close(p)
    out['got'] = got + rec.take()      # whatever the protocol still hands over when the connection goes down belongs to the session
  return out


def tcp_sessions_interleaved(cls, plans, order, rec, close_after=None):
  """Several clients of one listener at the same time.  plans[k] = the segments of connection k; order = sequence of
  connection indices saying whose next segment is read next (a connection is made when its first segment is due);
  close_after = {k: n}: connection k goes away (cleanly) after n of its segments.  Returns dict(got, exc)."""
  _hook_reactor()
  del _zero_calls[:]
  rec.take()
  protos, pos, exc = {}, {}, None
  close_after = close_after or {}
  try:
    for k in order:
      if pos.get(k, 0) >= len(plans[k]) or (k in close_after and pos.get(k, 0) >= close_after[k]):
        continue
      if k not in protos:
        p = cls()
        p.makeConnection(StringTransport())
        protos[k] = p
        pos[k] = 0
      p = protos[k]
      if p.transport.disconnecting:
        continue
      p.dataReceived(plans[k][pos[k]])
      pos[k] += 1
      run_due_reactor_calls(())
      if k in close_after and pos[k] >= close_after[k]:
        close(p)
  except Exception as e:
    exc = e
  got = rec.take()
  for k, p in protos.items():
    if not (k in close_after and pos.get(k, 0) >= close_after[k]):
      close(p)
  return dict(got=got + rec.take(), exc=exc)


def tcp_session_with_pause(cls, segments, rec, at):
  """Like tcp_session, but the receivers are paused (flow control: cache or relay queues full) when the at-th datapoint of
  the session is handed over, and resumed after the segment in which that happened.  Everything that had arrived must still
  be delivered although nothing more is sent."""
  from carbon import events
  st = dict(n=0, paused=False)

  def pauser(metric, datapoint):
    st['n'] += 1
    if st['n'] == at and not st['paused']:
      st['paused'] = True
      events.pauseReceivingMetrics()
  events.metricReceived.addHandler(pauser)
  p = cls()
  t = StringTransport()
  p.makeConnection(t)
  rec.take()
  exc = None
  try:
    for seg in segments:
      if t.disconnecting:
        break
      p.dataReceived(seg)
      if st['paused']:
        events.resumeReceivingMetrics()
        st['paused'] = False
  except Exception as e:
    exc = e
  finally:
    events.metricReceived.removeHandler(pauser)
    if st['paused']:
      events.resumeReceivingMetrics()
  out = dict(got=rec.take(), exc=exc, exc_at=None, disconnecting=t.disconnecting, proto=p, transport=t, paused_at=at if st['n'] >= at else None)
  close(p)
  return out


def close(p):
  try:
    p.connectionLost(Failure(ConnectionDone()))
  except Exception:
    pass
  try:
    if hasattr(p, 'setTimeout'):
      p.setTimeout(None)       # twisted cancels the idle timer of a closed connection with its transport; do the same
  except Exception:
    pass


def udp_session(datagrams, rec, proto=None, clock=None, gaps=None):
  """With `clock` the receiver is attached to a port stand-in, its timers run on the clock and gaps[i] seconds pass
  before datagram i; datagrams arriving after the receiver closed its port are lost (as on a real socket)."""
  from carbon.protocols import MetricDatagramReceiver
  p = proto or MetricDatagramReceiver()
  port = None
  if clock is not None:
    p.callLater = clock.callLater
    port = FakeUDPPort()
    p.makeConnection(port)
  rec.take()
  exc = None
  exc_at = None
  for i, d in enumerate(datagrams):
    if clock is not None and gaps:
      clock.advance(gaps[i % len(gaps)])
    if port is not None and port.closed:
      continue
    try:
      p.datagramReceived(d, ('10.1.2.3', 4444))
    except Exception as e:
      exc = e
      exc_at = i
      # a datagram protocol survives (twisted logs the error); keep feeding the following datagrams
  return dict(got=rec.take(), exc=exc, exc_at=exc_at, port_closed=bool(port is not None and port.closed))


def cut(data, positions):
  out = []
  last = 0
  for p in sorted(positions):
    out.append(data[last:p])
    last = p
  out.append(data[last:])
  return out


def same_points(got, exp):
  """Exact comparison: names equal str, timestamps numerically equal, values bit-for-bit."""
  import struct
  if len(got) != len(exp):
    return 'count %d != %d' % (len(got), len(exp))
  for i, (g, e) in enumerate(zip(got, exp)):
    gm, gd = g
    em, ed = e
    if type(gm) is not str or gm != em:
      return 'entry %d: name %r != %r' % (i, gm, em)
    try:
      gt, gv = gd
    except Exception:
      return 'entry %d: datapoint shape %r' % (i, gd)
    if not isinstance(gt, (int, float)) or gt != ed[0]:
      return 'entry %d (%r): timestamp %r != %r' % (i, em, gt, ed[0])
    if not isinstance(gv, (int, float)) or struct.pack('>d', float(gv)) != struct.pack('>d', float(ed[1])):
      return 'entry %d (%r): value %r != %r' % (i, em, gv, ed[1])
  return None
