"""Seeded generators shared by the checks (DESIGN.md 2.7)."""
import random
import struct

SERVERS = ['10.0.0.1', '10.0.0.2', 'hostA', 'hostB.example.com', '::1', '192.168.1.7', 'c', 'd']
INSTANCES = [None, 'a', 'b', 'c', '1', 'cache-x']


def rng(seed, *parts):
  return random.Random('%s/%s' % (seed, '/'.join(str(p) for p in parts)))


def dest_set(r, n, max_servers=None):
  """n distinct (server, port, instance) with distinct (server, instance); several instances per server."""
  servers = SERVERS[:max_servers or len(SERVERS)]
  n = min(n, len(servers) * len(INSTANCES))      # no more distinct (server, instance) pairs than exist
  out, seen = [], set()
  port = 2004
  while len(out) < n:
    s = r.choice(servers)
    i = r.choice(INSTANCES)
    if (s, i) in seen:
      continue
    seen.add((s, i))
    out.append((s, port, i))
    port += r.choice([0, 1, 100])
  return out


ASCII_NAME = 'abcdefghijklmnopqrstuvwxyzABCXYZ0123456789_-'
UNI = ['é', 'ü', '€', '中', '\U0001F600', '́', 'Ж', '\U00010348']
PUNCT = list("!#$%&'()*+,-/:;<=>?@[]^_`{|}~\\\"")


# characters that are neither whitespace nor visible, at the start, the end and inside a name (byte order mark / zero width
# no-break space, zero width space, word joiner, soft hyphen, zero width joiner, direction override, DEL, a lone combining mark)
ODD_NAMES = ['\ufefffront.metric', 'back.metric\ufeff', 'mid\ufeffdle.metric', '\ufeff', '\ufeff\ufeffx', '\u200bzero.width', '\u2060word.joiner',
             '\xadsoft.hyphen', 'joiner\u200d', '\u202eoverride', '\x7fdel', '\u0301combining', '\ufffe.nonchar', '\ufffd.replacement']


def metric_name(r, nonascii=True, punct=False, maxseg=4):
  segs = []
  for _ in range(r.randint(1, maxseg)):
    n = r.randint(1, 6)
    alpha = list(ASCII_NAME)
    if nonascii and r.random() < 0.4:
      alpha = alpha + UNI * 3
    if punct and r.random() < 0.3:
      alpha = alpha + PUNCT
    segs.append(''.join(r.choice(alpha) for _ in range(n)))
  return '.'.join(segs)


def random_double(r, allow_inf=True):
  """Random 64-bit pattern that is not NaN."""
  while True:
    x = struct.unpack('>d', struct.pack('>Q', r.getrandbits(64)))[0]
    if x != x:
      continue
    if not allow_inf and x in (float('inf'), float('-inf')):
      continue
    return x


BOUNDARY_VALUES = [0.0, -0.0, 1.0, -1.0, 0.1, 1e-12, 1e-10, 5e-11, 1e-5, 1e10, 1e15, 1e16, 2.0 ** 53, 2.0 ** 53 + 2,
                   1e100, 1e308, 1.7976931348623157e308, 5e-324, 2.2250738585072014e-308,
                   float('inf'), float('-inf'), 123456789.123456789, 0.30000000000000004]


def value(r):
  c = r.random()
  if c < 0.25:
    return r.choice(BOUNDARY_VALUES)
  if c < 0.5:
    return random_double(r)
  if c < 0.7:
    return r.randint(-10 ** 6, 10 ** 6)
  if c < 0.8:
    return r.choice([2 ** 53, -2 ** 53, 2 ** 62, 10 ** 18, 0, -1, 1])
  return r.uniform(-1e6, 1e6)


def bits(x):
  return struct.pack('>d', float(x))
