"""Kill list: (name, [(file, old, new), ...]) per property."""
H = 'lib/carbon/hashing.py'
R = 'lib/carbon/routers.py'
U = 'lib/carbon/util.py'
D = 'lib/carbon/database.py'

MUTANTS = {
  'C05': [
    ('single-node-dup', [(H, "        yield node\n      return\n", "        yield node\n")]),
    ('no-used-servers', [(R, "        if server in used_servers:\n          continue\n", "        if False:\n          continue\n")]),
    ('rf-off-by-one', [(R, "        if count == self.replication_factor:", "        if count == self.replication_factor + 1:")]),
    ('walk-stops-early', [(H, "while nodes_len < self.nodes_len and index != last_index:", "while nodes_len < self.nodes_len - 1 and index != last_index:")]),
  ],
  'C06': [
    ('bump-minus', [(H, "position = position + 1", "position = position - 1")]),
    ('remove-rebuilds', [(H, "    self.ring = [entry for entry in self.ring if entry[1] != key]\n    self.ring_len = len(self.ring)\n",
                          "    nodes = sorted(self.nodes, key=str)\n    self.ring = []\n    self.nodes = set()\n    for n in nodes:\n      self.add_node(n)\n    self.ring_len = len(self.ring)\n")]),
    ('bisect-right', [(H, "index = bisect.bisect_left(self.ring, search_entry) % self.ring_len\n    last_index", "index = bisect.bisect_right(self.ring, (position, ('~',))) % self.ring_len\n    last_index")]),
    ('replica-key', [(H, 'replica_key = "%s:%d" % (key, i)', 'replica_key = "%s:%d" % (key[0], i)')]),
    ('fnv-fold', [(H, "small_hash = (big_hash >> 16) ^ (big_hash & 0xffff)", "small_hash = (big_hash >> 16) & 0xffff")]),
  ],
  'C13': [
    ('allow-builtins', [(U, "  class SafeUnpickler(pickle.Unpickler):\n    PICKLE_SAFE = {\n      'copy_reg': set(['_reconstructor']),\n      '__builtin__': set(['object']),\n    }",
                         "  class SafeUnpickler(pickle.Unpickler):\n    PICKLE_SAFE = {\n      'copy_reg': set(['_reconstructor']),\n      '__builtin__': set(['object']),\n      'builtins': set(['object']),\n    }")]),
    ('import-before-check', [(U, "    def find_class(self, module, name):\n      if module not in self.PICKLE_SAFE:\n        raise pickle.UnpicklingError('Attempting to unpickle unsafe module %s' % module)\n      __import__(module)",
                              "    def find_class(self, module, name):\n      try:\n        __import__(module)\n      except ImportError:\n        pass\n      if module not in self.PICKLE_SAFE:\n        raise pickle.UnpicklingError('Attempting to unpickle unsafe module %s' % module)\n      __import__(module)")]),
    ('find-class-renamed', [(U, "    def find_class(self, module, name):\n      if module not in self.PICKLE_SAFE:", "    def find_klass(self, module, name):\n      if module not in self.PICKLE_SAFE:")]),
    ('insecure-hardwired', [(U, "def get_unpickler(insecure=False):\n  if insecure:", "def get_unpickler(insecure=False):\n  if True:")]),
    ('name-check-dropped-module-widened', [(U, "      if module not in self.PICKLE_SAFE:\n        raise pickle.UnpicklingError('Attempting to unpickle unsafe module %s' % module)\n      __import__(module)\n      mod = sys.modules[module]\n      if name not in self.PICKLE_SAFE[module]:",
                                            "      if module not in self.PICKLE_SAFE and not module.startswith('collections'):\n        raise pickle.UnpicklingError('Attempting to unpickle unsafe module %s' % module)\n      __import__(module)\n      mod = sys.modules[module]\n      if False:")]),
  ],
  'C14': [
    ('no-lstrip', [(U, "return metric.replace('.', sep).lstrip(sep)", "return metric.replace('.', sep)")]),
    ('ceres-no-sep-strip', [(D, ".lstrip('.' + sep)", "")]),
    ('tagged-dots-kept', [(U, "metric_hash if hash_only else metric.replace('.', '_DOT_')", "metric_hash if hash_only else metric")]),
  ],
  'C18': [
    ('no-sort', [(U, "return tags.get('name', '') + ''.join(sorted([\n      ';%s=%s' % (tag, value)\n      for tag, value in tags.items()\n      if tag != 'name'\n    ]))",
                  "return tags.get('name', '') + ''.join([\n      ';%s=%s' % (tag, value)\n      for tag, value in tags.items()\n      if tag != 'name'\n    ])")]),
    ('om-semicolon-allowed', [(U, "    if ';' in metric:\n      # would be read back", "    if False:\n      # would be read back")]),
    ('name-tag-kept', [(U, "    tags['name'] = cls.sanitize_name_as_tag_value(metric)\n    return cls(metric, tags)\n\n  @staticmethod",
                        "    tags.setdefault('name', cls.sanitize_name_as_tag_value(metric))\n    return cls(metric, tags)\n\n  @staticmethod")]),
    ('mangle-on-error', [('lib/carbon/cache.py', "      log.msg('Error parsing metric %s: %s' % (metric, err))\n", "      log.msg('Error parsing metric %s: %s' % (metric, err))\n      metric = metric.split(';')[0]\n")]),
  ],
}

P = 'lib/carbon/protocols.py'
CL = 'lib/carbon/client.py'
MUTANTS.update({
  'C01': [
    ('no-strip-split-space', [(P, "      metric, value, timestamp = line.strip().split()\n      datapoint = (float(timestamp), float(value))\n    except ValueError:\n      if isinstance(line, bytes):  # not valid utf-8\n        line = line.decode('utf-8', 'replace')\n      if len(line) > 400:\n        line = line[:400] + '...'\n      log.listener('invalid line received from client",
                               "      metric, value, timestamp = line.strip().split(' ')\n      datapoint = (float(timestamp), float(value))\n    except ValueError:\n      if isinstance(line, bytes):  # not valid utf-8\n        line = line.decode('utf-8', 'replace')\n      if len(line) > 400:\n        line = line[:400] + '...'\n      log.listener('invalid line received from client")]),
    ('swap-ts-value-pickle', [(P, "datapoint = (float(value), float(timestamp))  # force proper types", "datapoint = (float(timestamp), float(value))  # force proper types")]),
    ('pickle-break', [(P, "        log.listener('Error decoding pickle: %s' % e)\n        continue", "        log.listener('Error decoding pickle: %s' % e)\n        break")]),
    ('pickle-no-float', [(P, "datapoint = (float(value), float(timestamp))  # force proper types", "datapoint = (float(value), float(timestamp)); datapoint = (value, timestamp)")]),
    ('decode-per-segment', [(P, "class MetricLineReceiver(MetricReceiver, LineOnlyReceiver):\n  plugin_name = \"line\"\n  delimiter = b'\\n'\n",
                             "class MetricLineReceiver(MetricReceiver, LineOnlyReceiver):\n  plugin_name = \"line\"\n  delimiter = b'\\n'\n\n  def dataReceived(self, data):\n    data = data.decode('utf-8', 'ignore').encode('utf-8')\n    return LineOnlyReceiver.dataReceived(self, data)\n")]),
    ('udp-split-newline-only', [(P, "    for line in data.splitlines():\n      try:\n        if sys.version_info >= (3, 0):\n          line = line.decode('utf-8')",
                                 "    for line in data.split(b'\\n'):\n      try:\n        if sys.version_info >= (3, 0):\n          line = line.decode('utf-8')\n        if not line: raise ValueError('x')")]),
    ('ts-int-truncated', [(P, "      datapoint = (float(timestamp), float(value))\n    except ValueError:\n      if isinstance(line, bytes):  # not valid utf-8\n        line = line.decode('utf-8', 'replace')\n      if len(line) > 400:\n        line = line[:400] + '...'\n      log.listener('invalid line received from client",
                           "      datapoint = (float(int(float(timestamp))), float(value))\n    except ValueError:\n      if isinstance(line, bytes):  # not valid utf-8\n        line = line.decode('utf-8', 'replace')\n      if len(line) > 400:\n        line = line[:400] + '...'\n      log.listener('invalid line received from client")]),
  ],
  'C11': [
    ('narrow-except-pickle', [(P, "    except Exception as exc:\n      log.listener('invalid pickle received", "    except (pickle.UnpicklingError, ValueError, IndexError, ImportError, KeyError, EOFError) as exc:\n      log.listener('invalid pickle received")]),
    ('return-after-bad-entry', [(P, "        log.listener('Error decoding pickle: %s' % e)\n        continue", "        log.listener('Error decoding pickle: %s' % e)\n        return")]),
    ('nonfinite-ts-raises', [(P, "    except (ValueError, OverflowError):  # NaN or infinite timestamp, drop like any other invalid datapoint\n      return", "    except (ValueError,):  # NaN\n      return")]),
    ('udp-whole-decode', [(P, "    for line in data.splitlines():\n      try:\n        if sys.version_info >= (3, 0):\n          line = line.decode('utf-8')", "    data = data.decode('utf-8')\n    for line in data.splitlines():\n      try:\n        if False:\n          line = line.decode('utf-8')")]),
    ('udp-stop-at-first-bad', [(P, "        log.listener('invalid line received from %s, ignoring [%s]' %\n                     (host, repr(line.strip())[1:-1]))", "        log.listener('invalid line received from %s, ignoring [%s]' %\n                     (host, repr(line.strip())[1:-1]))\n        break")]),
    ('disconnect-on-bad-line', [(P, "      log.listener('invalid line received from client %s, ignoring [%s]' %\n                   (self.peerName, repr(line.strip())[1:-1]))\n      return", "      log.listener('invalid line received from client %s, ignoring [%s]' %\n                   (self.peerName, repr(line.strip())[1:-1]))\n      if len(line) > 300:\n        self.transport.loseConnection()\n      return")]),
    ('accept-two-fields', [(P, "      metric, value, timestamp = line.strip().split()\n      datapoint = (float(timestamp), float(value))\n    except ValueError:\n      if isinstance(line, bytes):  # not valid utf-8\n        line = line.decode('utf-8', 'replace')\n      if len(line) > 400:\n        line = line[:400] + '...'\n      log.listener('invalid line received from client",
                            "      metric, value, timestamp = (line.strip().split() + ['0'])[:3]\n      datapoint = (float(timestamp), float(value))\n    except ValueError:\n      if isinstance(line, bytes):  # not valid utf-8\n        line = line.decode('utf-8', 'replace')\n      if len(line) > 400:\n        line = line[:400] + '...'\n      log.listener('invalid line received from client")]),
  ],
  'C12': [
    ('search-to-match', [('lib/carbon/regexlist.py', "if regex.search(value):", "if regex.match(value):")]),
    ('whitelist-when-empty', [(P, "if WhiteList and metric not in WhiteList:", "if metric not in WhiteList:")]),
    ('nan-test-on-ts', [(P, "if datapoint[1] != datapoint[1]:  # filter out NaN values", "if datapoint[0] != datapoint[0]:  # filter out NaN values")]),
    ('floor-div-to-div', [(P, "datapoint = (int(datapoint[0]) // res * res, datapoint[1])", "datapoint = (int(datapoint[0]) / res * res, datapoint[1])")]),
    ('round-instead-of-floor', [(P, "datapoint = (int(datapoint[0]) // res * res, datapoint[1])", "datapoint = (int(round(datapoint[0] / float(res))) * res, datapoint[1])")]),
    ('white-before-black', [(P, "    if BlackList and metric in BlackList:\n      instrumentation.increment('blacklistMatches')\n      return\n    if WhiteList and metric not in WhiteList:\n      instrumentation.increment('whitelistRejects')\n      return\n",
                             "    if WhiteList and metric not in WhiteList:\n      instrumentation.increment('whitelistRejects')\n      return\n    if BlackList and metric in BlackList:\n      instrumentation.increment('blacklistMatches')\n      return\n")]),
    ('minus-one-after-floor', [(P, "    if timestamp == -1:\n      datapoint = (time.time(), datapoint[1])\n    res = settings.MIN_TIMESTAMP_RESOLUTION\n    if res:\n      datapoint = (int(datapoint[0]) // res * res, datapoint[1])\n",
                                "    res = settings.MIN_TIMESTAMP_RESOLUTION\n    if res:\n      datapoint = (int(datapoint[0]) // res * res, datapoint[1])\n    if timestamp == -1:\n      datapoint = (time.time(), datapoint[1])\n")]),
    ('reload-keeps-old-on-empty', [('lib/carbon/regexlist.py', "    self.regex_list = new_regex_list\n", "    if new_regex_list:\n      self.regex_list = new_regex_list\n")]),
  ],
  'C15': [
    ('precision-6', [(CL, '"%.10f" % datapoint[1]', '"%.6f" % datapoint[1]')]),
    ('percent-g', [(CL, 'value = ("%.10f" % datapoint[1]).rstrip(\'0\').rstrip(\'.\')', 'value = "%g" % datapoint[1]')]),
    ('no-rstrip-dot', [(CL, "rstrip('0').rstrip('.')", "rstrip('0.')")]),
    ('int-format-floats', [(CL, "      if isinstance(datapoint[1], float):\n", "      if isinstance(datapoint[1], float) and datapoint[1] != int(datapoint[1]) if abs(datapoint[1]) < 1e300 else True:\n")]),
    ('pickle-protocol-unsafe', [(CL, "self.sendString(pickle.dumps(datapoints, protocol=2))", "self.sendString(pickle.dumps([(m, (d[0], __import__('decimal').Decimal(d[1]) if isinstance(d[1], int) and d[1] > 10**6 else d[1])) for m, d in datapoints], protocol=2))")]),
    ('batch-drops-overflow', [(CL, "      for _ in range(settings.MAX_DATAPOINTS_PER_MESSAGE):\n        try:\n          yield self.queue.popleft()", "      for _ in range(settings.MAX_DATAPOINTS_PER_MESSAGE):\n        try:\n          if len(self.queue) == 13:\n            self.queue.popleft()\n          yield self.queue.popleft()")]),
    ('ts-rounded', [(CL, 'to_send = "%s %s %d" % (metric, value, datapoint[0])', 'to_send = "%s %s %d" % (metric, value, round(datapoint[0]))')]),
  ],
})

RT = 'lib/carbon/routers.py'
RR = 'lib/carbon/relayrules.py'
AR = 'lib/carbon/aggregator/rules.py'
ST = 'lib/carbon/storage.py'
W = 'lib/carbon/writer.py'
MUTANTS.update({
  'C16': [
    ('ignore-continue', [(RT, "        if not rule.continue_matching:\n          return", "        return")]),
    ('always-continue', [(RT, "        if not rule.continue_matching:\n          return", "        if False:\n          return")]),
    ('default-first', [(RR, "  rules.append(defaultRule)\n  return rules", "  rules.insert(0, defaultRule)\n  return rules")]),
    ('yield-unconfigured', [(RT, "          if destination in self.destinations:\n            yield destination", "          if True:\n            yield destination")]),
    ('hash-raw-metric', [(RT, "    for resolved_metric in resolved_metrics:\n      for destination in self.hash_router.getDestinations(resolved_metric):", "    for resolved_metric in resolved_metrics:\n      for destination in self.hash_router.getDestinations(key):")]),
    ('first-agg-rule-only', [(RT, "      else:\n        resolved_metrics.append(aggregate_metric)\n", "      else:\n        resolved_metrics.append(aggregate_metric)\n        break\n")]),
    ('case-sensitive', [(RR, "regex = re.compile(pattern, re.I)", "regex = re.compile(pattern)")]),
    ('regex-match-not-search', [(RR, "condition=regex.search, destinations", "condition=regex.match, destinations")]),
    ('agg-regex-no-dollar', [(AR, "regex_pattern = '\\\\.'.join(regex_pattern_parts) + '$'", "regex_pattern = '\\\\.'.join(regex_pattern_parts)")]),
    ('field-spans-dots', [(AR, "regex_part = '%s(?P<%s>[^.]+?)%s' % (pre, field_name, post)", "regex_part = '%s(?P<%s>.+?)%s' % (pre, field_name, post)")]),
  ],
  'C19': [
    ('reversed-schemas', [(W, "      for schema in SCHEMAS:\n        if schema.matches(metric):", "      for schema in list(reversed(SCHEMAS[:-1])) + SCHEMAS[-1:]:\n        if schema.matches(metric):")]),
    ('no-break', [(W, "          archiveConfig = [archive.getTuple() for archive in schema.archives]\n          break", "          archiveConfig = [archive.getTuple() for archive in schema.archives]")]),
    ('week-6-days', [(U, "'w': 60 * 60 * 24 * 7,", "'w': 60 * 60 * 24 * 6,")]),
    ('points-not-divided', [(U, "points = int(match.group(1)) * UnitMultipliers[getUnitString(match.group(2))] / precision", "points = int(match.group(1)) * UnitMultipliers[getUnitString(match.group(2))]")]),
    ('sections-sorted', [('lib/carbon/conf.py', "    return list(self._ordered_sections)  # return a copy for safety", "    return sorted(self._ordered_sections)  # return a copy for safety")]),
    ('agg-no-break', [(W, "          xFilesFactor, aggregationMethod = schema.archives\n          break", "          xFilesFactor, aggregationMethod = schema.archives")]),
    ('match-instead-of-search', [(ST, "    return self.regex.search(metric)", "    return self.regex.match(metric)")]),
    ('missing-pattern-becomes-default', [(ST, "    else:\n      log.err(\"Schema %s missing 'pattern', skipping\" % section)\n      continue", "    else:\n      mySchema = DefaultSchema(section, archives)")]),
  ],
  'C20': [
    ('no-cap', [(U, "self._tokens = min(self.capacity, self._tokens + delta)", "self._tokens = self._tokens + delta")]),
    ('timestamp-not-updated', [(U, "      self._tokens = min(self.capacity, self._tokens + delta)\n      self.timestamp = now", "      self._tokens = min(self.capacity, self._tokens + delta)")]),
    ('blocking-no-deduct', [(U, "      sleep(time_to_sleep)\n\n    self._tokens -= cost\n    return True", "      sleep(time_to_sleep)\n\n    return True")]),
    ('setcap-adds', [(U, "    self._tokens = delta + self._tokens", "    self._tokens = float(new_capacity) + max(0.0, self._tokens)")]),
    ('oversleep', [(U, "    seconds_left = seconds_per_token * tokens_needed", "    seconds_left = seconds_per_token * cost * 2")]),
    ('creates-per-second', [(W, "  fill_rate = float(settings.MAX_CREATES_PER_MINUTE) / 60", "  fill_rate = float(settings.MAX_CREATES_PER_MINUTE)")]),
    ('update-bucket-nonblocking-ignored', [(W, "      UPDATE_BUCKET.drain(1, blocking=True)", "      UPDATE_BUCKET.drain(1)")]),
  ],
})

C = 'lib/carbon/cache.py'
MUTANTS.update({
  'C02': [
    ('pop-no-lock', [(C, "      with self.lock:\n        metric = self.strategy.choose_item()\n        if metric is None:", "      if True:\n        metric = self.strategy.choose_item()\n        if metric is None:")]),
    ('store-no-lock', [(C, "    timestamp, value = datapoint\n    with self.lock:\n", "    timestamp, value = datapoint\n    if True:\n")]),
    ('size-after-lock', [(C, "        datapoint_index = self._pop(metric)\n        self._check_available_space()\n      return (metric, sorted(datapoint_index.items(), key=by_timestamp))",
                          "        datapoint_index = defaultdict.pop(self, metric)\n      self.size -= len(datapoint_index)\n      self._check_available_space()\n      return (metric, sorted(datapoint_index.items(), key=by_timestamp))")]),
    ('dup-increments-size', [(C, "        # Updating a duplicate does not increase the cache size\n        self[metric][timestamp] = value", "        # Updating a duplicate does not increase the cache size\n        self[metric][timestamp] = value\n        self.size += 1")]),
    ('drop-sorted', [(C, "      return (metric, sorted(datapoint_index.items(), key=by_timestamp))\n    # Avoid", "      return (metric, list(datapoint_index.items()))\n    # Avoid")]),
    ('first-write-wins', [(C, "        # Updating a duplicate does not increase the cache size\n        self[metric][timestamp] = value", "        # Updating a duplicate does not increase the cache size\n        pass")]),
    ('pop-two-steps', [(C, "        datapoint_index = self._pop(metric)\n        self._check_available_space()\n      return (metric, sorted(datapoint_index.items(), key=by_timestamp))",
                        "        datapoint_index = dict(self[metric])\n      with self.lock:\n        self.size -= len(self[metric])\n        del self[metric]\n      self._check_available_space()\n      return (metric, sorted(datapoint_index.items(), key=by_timestamp))")]),
    ('query-pops', [('lib/carbon/protocols.py', "      datapoints = list(cache.get(metric, {}).items())\n      result = dict(datapoints=datapoints)", "      datapoints = list(cache.get(metric, {}).items())[:2]\n      result = dict(datapoints=datapoints)")]),
  ],
  'C10': [
    ('ge-to-gt', [(C, "      return self.size >= settings.CACHE_SIZE_HARD_MAX", "      return self.size > settings.CACHE_SIZE_HARD_MAX")]),
    ('overflow-event-removed', [(C, "          events.cacheOverflow()\n", "          pass\n")]),
    ('existing-metrics-bypass-limit', [(C, "        if self.is_full:\n          log.msg(\"MetricCache is full", "        if self.is_full and metric not in self:\n          log.msg(\"MetricCache is full")]),
    ('refuse-duplicates-when-full', [(C, "      if timestamp not in self.get(metric, {}):\n", "      if timestamp not in self.get(metric, {}) or self.is_full:\n")]),
    ('empty-entry-left', [(C, "      if timestamp not in self.get(metric, {}):\n", "      if timestamp not in self[metric]:\n")]),
    ('hard-max-150pct', [('lib/carbon/conf.py', "settings.CACHE_SIZE_HARD_MAX = settings.MAX_CACHE_SIZE * 1.05", "settings.CACHE_SIZE_HARD_MAX = settings.MAX_CACHE_SIZE * 1.5")]),
    ('size-not-incremented-for-new-metric', [(C, "          if not self[metric]:\n            self.new_metrics.append(metric)\n          self.size += 1", "          if not self[metric]:\n            self.new_metrics.append(metric)\n          else:\n            self.size += 1")]),
  ],
  'C17': [
    ('choose-pop-window', [(C, "        datapoint_index = self._pop(metric)\n        self._check_available_space()\n      return (metric, sorted(datapoint_index.items(), key=by_timestamp))",
                            "        pass\n      return (metric, self.pop(metric))")]),
    ('sorted-resorts-every-call', [(C, "class SortedStrategy(DrainStrategy):", "class SortedStrategy(DrainStrategy):\n  def choose_item(self):\n    self.__init__(self.cache)\n    return next(self.queue)\n  choose_item2 = choose_item\n"),
                                   (C, "    self.queue = _generate_queue()\n\n  def choose_item(self):\n    return next(self.queue)\n\n\nclass TimeSortedStrategy", "    self.queue = _generate_queue()\n\n  def choose_item_unused(self):\n    return next(self.queue)\n\n\nclass TimeSortedStrategy")]),
    ('bucketmax-no-rebucket', [(C, "        if nr_points > 1:\n            self.buckets[nr_points - 2].remove(metric)\n\n        self.buckets[nr_points - 1].append(metric)", "        if nr_points > 1:\n            return\n\n        self.buckets[nr_points - 1].append(metric)")]),
    ('naive-snapshot-once', [(C, "      while True:\n        metric_names = list(self.cache.keys())\n        while metric_names:\n          yield metric_names.pop()", "      metric_names = list(self.cache.keys())\n      while True:\n        while metric_names:\n          yield metric_names.pop()\n        yield None")]),
    ('max-picks-min', [(C, "metric_name, _ = max(self.cache.items(), key=lambda x: len(itemgetter(1)(x)))", "metric_name, _ = min(self.cache.items(), key=lambda x: len(itemgetter(1)(x)))")]),
    ('timesorted-ignores-lag', [(C, "        if settings.MIN_TIMESTAMP_LAG:\n          metric_lw = [", "        if False:\n          metric_lw = [")]),
    ('empty-entry-left', [(C, "      if timestamp not in self.get(metric, {}):\n", "      if timestamp not in self[metric]:\n")]),
    ('timesorted-lag-uses-newest', [(C, "metric_lw = [x for x in metric_lw if t - x[1] > settings.MIN_TIMESTAMP_LAG]", "metric_lw = [x for x in metric_lw if t - x[2] > settings.MIN_TIMESTAMP_LAG]")]),
  ],
})

MUTANTS.update({
  'C03': [
    ('committed-before-write', [(W, "      datapoints = dict(datapoints).items()\n      state.database.write(metric, datapoints)", "      datapoints = dict(datapoints).items()\n      instrumentation.increment('committedPoints', len(datapoints))\n      state.database.write(metric, datapoints)"),
                                (W, "      pointCount = len(datapoints)\n      instrumentation.increment('committedPoints', pointCount)", "      pointCount = len(datapoints)")]),
    ('no-exists-gate', [(W, "    if not state.database.exists(metric):\n      # If we get here", "    if False:\n      # If we get here")]),
    ('swallow-write-error', [(W, "      log.msg(\"Error writing to %s: %s\" % (metric, e))\n      instrumentation.increment('errors')", "      pass")]),
    ('dropped-not-counted', [(W, "      instrumentation.increment('droppedCreates')\n      continue", "      continue")]),
    ('dropped-falls-through', [(W, "      instrumentation.increment('droppedCreates')\n      continue", "      instrumentation.increment('droppedCreates')")]),
    ('stale-datapoints', [(W, "      datapoints = dict(datapoints).items()\n      state.database.write(metric, datapoints)", "      prev = globals().get('_prev') or datapoints\n      globals()['_prev'] = datapoints\n      datapoints = dict(prev).items()\n      state.database.write(metric, datapoints)")]),
    ('write-twice-on-slow', [(W, "      state.database.write(metric, datapoints)\n      if settings.ENABLE_TAGS:", "      state.database.write(metric, datapoints)\n      if len(datapoints) == 3:\n        state.database.write(metric, datapoints)\n      if settings.ENABLE_TAGS:")]),
    ('create-error-not-counted', [(W, "        log.msg(\"Error creating %s: %s\" % (metric, e))\n        instrumentation.increment('errors')\n        continue", "        log.msg(\"Error creating %s: %s\" % (metric, e))\n        continue")]),
    ('pass-error-swallowed', [(W, "    try:\n      writeCachedDataPoints()\n    except Exception:\n      log.err()\n      # Back-off on error", "    try:\n      writeCachedDataPoints()\n    except Exception:\n      pass\n      # Back-off on error")]),
  ],
  'C04': [
    ('no-final-pass', [(W, "  try:\n    writeCachedDataPoints()\n  except Exception:\n    log.err()\n\n\ndef writeTags", "  pass\n\n\ndef writeTags")]),
    ('lag-not-zeroed', [(W, "    settings.MIN_TIMESTAMP_LAG = 0\n", "    pass\n")]),
    ('break-mid-pass-on-stop', [(W, "    # now drain and persist some data\n    (metric, datapoints) = cache.drain_metric()", "    if not reactor.running and len(cache) > 1:\n      break\n    # now drain and persist some data\n    (metric, datapoints) = cache.drain_metric()")]),
    ('final-pass-only-if-idle', [(W, "  try:\n    writeCachedDataPoints()\n  except Exception:\n    log.err()\n\n\ndef writeTags", "  try:\n    if len(MetricCache()) < 2:\n      writeCachedDataPoints()\n  except Exception:\n    log.err()\n\n\ndef writeTags")]),
    ('shutdown-speed-zero', [(W, "          UPDATE_BUCKET.setCapacityAndFillRate(shut, shut)", "          UPDATE_BUCKET.setCapacityAndFillRate(shut, shut)\n          raise KeyError('x')")]),
  ],
})

MUTANTS.update({
  'C07': [
    ('popleft-to-pop', [(CL, "          yield self.queue.popleft()", "          yield self.queue.pop()")]),
    ('normal-appendleft', [(CL, "  def enqueue(self, metric, datapoint):\n    self.queue.append((metric, datapoint))", "  def enqueue(self, metric, datapoint):\n    self.queue.appendleft((metric, datapoint))")]),
    ('no-clear-after-reinject', [(CL, "          state.events.metricGenerated(metric, datapoint)\n      self.queue.clear()\n      # The queue is empty now", "          state.events.metricGenerated(metric, datapoint)\n      # The queue is empty now")]),
    ('clear-before-reinject', [(CL, "      # Re-inject queued metrics.\n      metrics = list(self.queue)\n", "      # Re-inject queued metrics.\n      self.queue.clear()\n      metrics = list(self.queue)\n")]),
    ('drop-counted-but-enqueued', [(CL, "      else:\n        instrumentation.increment(self.fullQueueDrops)\n    else:", "      else:\n        instrumentation.increment(self.fullQueueDrops)\n        self.enqueue(metric, datapoint)\n    else:")]),
    ('drop-not-counted', [(CL, "      else:\n        instrumentation.increment(self.fullQueueDrops)\n    else:", "      else:\n        pass\n    else:")]),
    ('disconnect-immediately', [(CL, "    self.queueEmpty.addCallbacks(lambda result: self.stopConnecting(), log.err)\n", "    self.stopConnecting()\n")]),
    ('queue-reset-on-connection-lost', [(CL, "    self.connectedProtocol = None\n\n    self.destinationDown(self.destination)", "    self.connectedProtocol = None\n    if len(self.queue) > 2:\n      self.queue.clear()\n\n    self.destinationDown(self.destination)")]),
    ('drop-at-max-queue-size', [(CL, "      if self.queueSize < SEND_QUEUE_HARD_MAX:\n        self.enqueue(metric, datapoint)", "      if self.queueSize < settings.MAX_QUEUE_SIZE - 1:\n        self.enqueue(metric, datapoint)")]),
    ('resend-on-reconnect', [(CL, "    return list(yield_max_datapoints())", "    got = list(yield_max_datapoints())\n    if len(got) == 3 and getattr(self, '_dup', None) != got[0]:\n      self._dup = got[0]\n      self.queue.appendleft(got[0])\n    return got")]),
    ('fake-buffer-clear-first', [(CL, "  def reinjectDatapoints(self):\n    metrics = list(self.queue)", "  def reinjectDatapoints(self):\n    metrics = list(self.queue)[1:]")]),
    ('line-sent-counter-off', [(CL, "    instrumentation.increment(self.sent, len(datapoints))", "    instrumentation.increment(self.sent, 1)")]),
  ],
})

AB = 'lib/carbon/aggregator/buffers.py'
AP = 'lib/carbon/aggregator/processor.py'
MUTANTS.update({
  'C08': [
    ('clear-values-on-emission', [(AB, "        buffer.mark_inactive(current_interval)\n", "        buffer.mark_inactive(current_interval)\n        buffer.values = []\n")]),
    ('interval-floor-div', [(AB, "    interval = timestamp - (timestamp % self.aggregation_frequency)", "    interval = timestamp // self.aggregation_frequency")]),
    ('no-mark-inactive', [(AB, "        buffer.mark_inactive(current_interval)\n", "        pass\n")]),
    ('cap-ge', [(AB, "    if len(self.interval_buffers) > max_aggregation_intervals + 2:", "    if len(self.interval_buffers) >= max_aggregation_intervals + 1:")]),
    ('cap-missing', [(AB, "    if len(self.interval_buffers) > max_aggregation_intervals + 2:", "    if len(self.interval_buffers) > max_aggregation_intervals + 20:")]),
    ('regex-no-dollar', [(AR, "regex_pattern = '\\\\.'.join(regex_pattern_parts) + '$'", "regex_pattern = '\\\\.'.join(regex_pattern_parts)")]),
    ('field-spans-dots', [(AR, "regex_part = '%s(?P<%s>[^.]+?)%s' % (pre, field_name, post)", "regex_part = '%s(?P<%s>.+?)%s' % (pre, field_name, post)")]),
    ('forward-aggregate-named', [(AP, "    if settings.FORWARD_ALL and metric not in aggregate_metrics:", "    if settings.FORWARD_ALL:")]),
    ('forward-ignores-setting', [(AP, "    if settings.FORWARD_ALL and metric not in aggregate_metrics:", "    if metric not in aggregate_metrics:")]),
    ('first-rule-only', [(AP, "      values_buffer.input(datapoint)\n", "      values_buffer.input(datapoint)\n      break\n")]),
    ('never-unregister', [(AB, "      del BufferManager.buffers[self.metric_path]", "      pass")]),
    ('avg-int-division', [(AR, "    return float(sum(values)) / len(values)", "    return sum(values) // len(values)")]),
    ('percentile-rank', [(AR, "      rank = factor * (len(values) - 1)", "      rank = factor * len(values) - 1 if len(values) > 3 else factor * (len(values) - 1)")]),
    ('delete-before-emit-when-old', [(AB, "      if buffer.inactive_since is None:\n        value", "      if buffer.inactive_since is None and buffer.interval >= age_threshold:\n        value")]),
  ],
  'C09': [
    ('pretake-size', [(CL, "    queueSize = self.factory.queueSize\n    if (self.factory.queueFull.called and queueSize < SEND_QUEUE_LOW_WATERMARK):", "    if (self.factory.queueFull.called and queueSize < SEND_QUEUE_LOW_WATERMARK):")]),
    ('no-space-event-on-reroute', [(CL, "      if (self.queueFull.called and not self.queueHasSpace.called and\n              self.router.countDestinations()):\n        self.queueHasSpace.callback(self.queueSize)", "      pass")]),
    ('space-check-outside-lock', [(C, "        datapoint_index = self._pop(metric)\n        self._check_available_space()\n      return", "        datapoint_index = self._pop(metric)\n      self._check_available_space()\n      return")]),
    ('watermark-le', [(C, "    if state.cacheTooFull and self.size < settings.CACHE_SIZE_LOW_WATERMARK:", "    if state.cacheTooFull and self.size < settings.CACHE_SIZE_LOW_WATERMARK - 1:")]),
    ('queuefull-not-rearmed', [(CL, "      self.queueFull = Deferred()\n      self.queueFull.addCallbacks(self.queueFullCallback, log.err)\n      state.events.cacheSpaceAvailable()", "      state.events.cacheSpaceAvailable()")]),
    ('late-receiver-not-paused', [(P, "      if state.metricReceiversPaused:\n        self.pauseReceiving()\n        if not", "      if False:\n        self.pauseReceiving()\n        if not")]),
    ('connect-subscribe-late', [(P, "    if settings.USE_FLOW_CONTROL:\n      events.resumeReceivingMetrics.addHandler(self.resumeReceiving)\n      events.pauseReceivingMetrics.addHandler(self.pauseReceiving)\n",
                                 "    if settings.USE_FLOW_CONTROL:\n"),
                                (P, "    state.connectedMetricReceiverProtocols.add(self)\n    checkIfAcceptingConnections()\n", "    state.connectedMetricReceiverProtocols.add(self)\n    checkIfAcceptingConnections()\n    if settings.USE_FLOW_CONTROL:\n      events.pauseReceivingMetrics.addHandler(self.pauseReceiving)\n      events.resumeReceivingMetrics.addHandler(self.resumeReceiving)\n")]),
    ('no-recheck-after-pause', [(P, "        if not state.metricReceiversPaused:\n          # resumed in the meantime, possibly before our handler was called\n          self.resumeReceiving()\n", "")]),
    ('plain-lock', [(C, "self.lock = threading.RLock()", "self.lock = threading.Lock()")]),
    ('pause-subscribed-first', [(P, "      events.resumeReceivingMetrics.addHandler(self.resumeReceiving)\n      events.pauseReceivingMetrics.addHandler(self.pauseReceiving)\n\n      # Only", "      events.pauseReceivingMetrics.addHandler(self.pauseReceiving)\n      events.resumeReceivingMetrics.addHandler(self.resumeReceiving)\n\n      # Only")]),
    ('resume-wiring-removed', [('lib/carbon/service.py', "  writer_service = WriterService()\n  writer_service.setServiceParent(root_service)\n\n  if settings.USE_FLOW_CONTROL:\n    events.cacheFull.addHandler(events.pauseReceivingMetrics)\n    events.cacheSpaceAvailable.addHandler(events.resumeReceivingMetrics)",
                                "  writer_service = WriterService()\n  writer_service.setServiceParent(root_service)\n\n  if settings.USE_FLOW_CONTROL:\n    events.cacheFull.addHandler(events.pauseReceivingMetrics)")]),
    ('space-event-only-when-empty', [(CL, "    if (self.factory.queueFull.called and queueSize < SEND_QUEUE_LOW_WATERMARK):", "    if (self.factory.queueFull.called and queueSize < SEND_QUEUE_LOW_WATERMARK and queueSize != 1):")]),
  ],
})

MUTANTS['C07'] += [
  ('hard-max-double', [(CL, "    SEND_QUEUE_HARD_MAX = settings.MAX_QUEUE_SIZE * settings.MAX_QUEUE_SIZE_HARD_PCT", "    SEND_QUEUE_HARD_MAX = settings.MAX_QUEUE_SIZE * settings.MAX_QUEUE_SIZE_HARD_PCT * 2")]),
  ('timer-handle-never-cleared', [(CL, "    if self.deferSendPending and self.deferSendPending.active():\n      return", "    if self.deferSendPending is not None:\n      return"),
                                  (CL, "  def sendQueued(self):\n    if self.connectedProtocol:\n      self.connectedProtocol.sendQueued()", "  def sendQueued(self):\n    if not self.connectedProtocol:\n      return\n    self.deferSendPending = None\n    self.connectedProtocol.sendQueued()")]),
]
MUTANTS['C09'] += [
  ('low-watermark-pct-ignored', [(CL, "SEND_QUEUE_LOW_WATERMARK = settings.MAX_QUEUE_SIZE * settings.QUEUE_LOW_WATERMARK_PCT", "SEND_QUEUE_LOW_WATERMARK = settings.MAX_QUEUE_SIZE * 0.1")]),
  ('cache-watermark-80', [('lib/carbon/conf.py', "settings.CACHE_SIZE_LOW_WATERMARK = settings.MAX_CACHE_SIZE * 0.95", "settings.CACHE_SIZE_LOW_WATERMARK = settings.MAX_CACHE_SIZE * 0.5")]),
]
