"""Kill list: (name, [(file, old, new), ...]) per property."""
H = 'lib/carbon/hashing.py'
R = 'lib/carbon/routers.py'
U = 'lib/carbon/util.py'
D = 'lib/carbon/database.py'

MUTANTS = {
  'C05': [
    ('single-node-dup', [(H, "        yield node\n      return\n", "        yield node\n")]),
    ('no-used-servers', [(R, "        if server in used_servers:\n          continue\n", "        if False:\n          continue\n")]),
    ('rf-off-by-one', [(R, "        if count == self.replication_factor:", "        if count == self.replication_factor + 1:")]),
    ('walk-stops-early', [(H, "while nodes_len < self.nodes_len and index != last_index:", "while nodes_len < self.nodes_len - 1 and index != last_index:")]),
  ],
  'C06': [
    ('bump-minus', [(H, "position = position + 1", "position = position - 1")]),
    ('remove-rebuilds', [(H, "    self.ring = [entry for entry in self.ring if entry[1] != key]\n    self.ring_len = len(self.ring)\n",
                          "    nodes = sorted(self.nodes, key=str)\n    self.ring = []\n    self.nodes = set()\n    for n in nodes:\n      self.add_node(n)\n    self.ring_len = len(self.ring)\n")]),
    ('bisect-right', [(H, "index = bisect.bisect_left(self.ring, search_entry) % self.ring_len\n    last_index", "index = bisect.bisect_right(self.ring, (position, ('~',))) % self.ring_len\n    last_index")]),
    ('replica-key', [(H, 'replica_key = "%s:%d" % (key, i)', 'replica_key = "%s:%d" % (key[0], i)')]),
    ('fnv-fold', [(H, "small_hash = (big_hash >> 16) ^ (big_hash & 0xffff)", "small_hash = (big_hash >> 16) & 0xffff")]),
  ],
  'C13': [
    ('allow-builtins', [(U, "  class SafeUnpickler(pickle.Unpickler):\n    PICKLE_SAFE = {\n      'copy_reg': set(['_reconstructor']),\n      '__builtin__': set(['object']),\n    }",
                         "  class SafeUnpickler(pickle.Unpickler):\n    PICKLE_SAFE = {\n      'copy_reg': set(['_reconstructor']),\n      '__builtin__': set(['object']),\n      'builtins': set(['object']),\n    }")]),
    ('import-before-check', [(U, "    def find_class(self, module, name):\n      if module not in self.PICKLE_SAFE:\n        raise pickle.UnpicklingError('Attempting to unpickle unsafe module %s' % module)\n      __import__(module)",
                              "    def find_class(self, module, name):\n      try:\n        __import__(module)\n      except ImportError:\n        pass\n      if module not in self.PICKLE_SAFE:\n        raise pickle.UnpicklingError('Attempting to unpickle unsafe module %s' % module)\n      __import__(module)")]),
    ('find-class-renamed', [(U, "    def find_class(self, module, name):\n      if module not in self.PICKLE_SAFE:", "    def find_klass(self, module, name):\n      if module not in self.PICKLE_SAFE:")]),
    ('insecure-hardwired', [(U, "def get_unpickler(insecure=False):\n  if insecure:", "def get_unpickler(insecure=False):\n  if True:")]),
    ('name-check-dropped-module-widened', [(U, "      if module not in self.PICKLE_SAFE:\n        raise pickle.UnpicklingError('Attempting to unpickle unsafe module %s' % module)\n      __import__(module)\n      mod = sys.modules[module]\n      if name not in self.PICKLE_SAFE[module]:",
                                            "      if module not in self.PICKLE_SAFE and not module.startswith('collections'):\n        raise pickle.UnpicklingError('Attempting to unpickle unsafe module %s' % module)\n      __import__(module)\n      mod = sys.modules[module]\n      if False:")]),
  ],
  'C14': [
    ('no-lstrip', [(U, "return metric.replace('.', sep).lstrip(sep)", "return metric.replace('.', sep)")]),
    ('ceres-no-sep-strip', [(D, ".lstrip('.' + sep)", "")]),
    ('tagged-dots-kept', [(U, "metric_hash if hash_only else metric.replace('.', '_DOT_')", "metric_hash if hash_only else metric")]),
  ],
  'C18': [
    ('no-sort', [(U, "return tags.get('name', '') + ''.join(sorted([\n      ';%s=%s' % (tag, value)\n      for tag, value in tags.items()\n      if tag != 'name'\n    ]))",
                  "return tags.get('name', '') + ''.join([\n      ';%s=%s' % (tag, value)\n      for tag, value in tags.items()\n      if tag != 'name'\n    ])")]),
    ('om-semicolon-allowed', [(U, "    if ';' in metric:\n      # would be read back", "    if False:\n      # would be read back")]),
    ('name-tag-kept', [(U, "    tags['name'] = cls.sanitize_name_as_tag_value(metric)\n    return cls(metric, tags)\n\n  @staticmethod",
                        "    tags.setdefault('name', cls.sanitize_name_as_tag_value(metric))\n    return cls(metric, tags)\n\n  @staticmethod")]),
    ('mangle-on-error', [('lib/carbon/cache.py', "      log.msg('Error parsing metric %s: %s' % (metric, err))\n", "      log.msg('Error parsing metric %s: %s' % (metric, err))\n      metric = metric.split(';')[0]\n")]),
  ],
}
