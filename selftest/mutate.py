#!/usr/bin/env python3
"""Self-validation: apply a deliberate break ("kill list", DESIGN.md 6) to a scratch copy of /repo and confirm the check fires.

usage: mutate.py <Cxx|all> [mutant-name-substr] [--tier quick] [--tests]
Not part of any registered command."""
import argparse
import importlib
import os
import shutil
import subprocess
import sys
import tempfile

HERE = os.path.dirname(os.path.abspath(__file__))
VERIF = os.path.dirname(HERE)
sys.path.insert(0, HERE)


def main():
  ap = argparse.ArgumentParser()
  ap.add_argument('prop')
  ap.add_argument('name', nargs='?', default='')
  ap.add_argument('--tier', default='quick')
  ap.add_argument('--tests', action='store_true')
  a = ap.parse_args()
  from mutants import MUTANTS
  props = sorted(MUTANTS) if a.prop == 'all' else [a.prop]
  summary = []
  for prop in props:
    for (name, edits) in MUTANTS.get(prop, []):
      if a.name and a.name not in name:
        continue
      d = tempfile.mkdtemp(prefix='carbon-mut-')
      try:
        subprocess.run(['rsync', '-a', '--exclude', '.git', '/repo/', d + '/'], check=True)
        ok = True
        for (rel, old, new) in edits:
          p = os.path.join(d, rel)
          s = open(p).read()
          if s.count(old) != 1:
            print('MUTANT %s/%s: pattern occurs %d times in %s' % (prop, name, s.count(old), rel))
            ok = False
            break
          open(p, 'w').write(s.replace(old, new))
        if not ok:
          summary.append((prop, name, 'BAD-PATTERN', ''))
          continue
        tests = ''
        if a.tests:
          t = subprocess.run('cd %s && /venv/bin/python -m pytest -q -p no:cacheprovider --timeout=900 -q lib/carbon/tests '
                             '--continue-on-collection-errors 2>&1 | grep -E "passed|failed" | tail -1' % d, shell=True, capture_output=True, text=True)
          tests = t.stdout.strip()
          tests = 'tests:' + ('179-pass' if '179 passed' in tests else tests)
        env = dict(os.environ, VERIF_REPO=d)
        r = subprocess.run(['/venv/bin/python', os.path.join(VERIF, 'run.py'), prop, '--tier', a.tier], cwd=VERIF, env=env,
                           capture_output=True, text=True)
        lines = [l for l in r.stdout.splitlines() if l.startswith(('VIOLATION', 'INCONCLUSIVE', '  detail'))]
        verdict = 'CAUGHT' if r.returncode == 1 else ('INCONCLUSIVE' if r.returncode == 2 else 'MISSED')
        summary.append((prop, name, verdict, tests))
        print('== %s %s: %s (rc=%d) %s' % (prop, name, verdict, r.returncode, tests))
        for l in lines[:4]:
          print('   ' + l[:300])
        if r.returncode not in (0, 1, 2):
          print(r.stderr[-2000:])
      finally:
        shutil.rmtree(d, ignore_errors=True)
  # restore evidence of the real tree is the caller's job (re-run the check on /repo)
  print('\nSUMMARY')
  for s in summary:
    print('  %-4s %-40s %-12s %s' % s)


if __name__ == '__main__':
  main()
