"""C14 — no metric name can place a file outside the data directory."""
import itertools
import os
import sys

from vlib import gen

PROPERTY = 'C14'
LEVEL = 'exploration'
ALPHA = ['.', '/', ';', '=', '~', '_', 'a', 'é']
RULE = ('case = (backend class, TAG_HASH_FILENAMES, metric string); all strings up to length L over the alphabet '
        + repr(ALPHA) + ' (L=5 quick, 6 thorough) plus classic traversal strings and random longer names; for each the '
        'real getFilesystemPath() is called twice (determinism) and its realpath must lie under realpath(LOCAL_DATA_DIR); '
        'a subset is really created through database.create() in a scratch tree with decoy siblings and the tree is '
        'walked; injectivity is checked over well-formed untagged names; non-trivial = name containing a separator, dot, '
        'semicolon or tilde; distinct = distinct (backend, flag, name)')
RULE_MORE = (' Also: names around the 255-byte component limit with single-character neighbours, encoder-output look-alikes with every count of leading underscores, shell / home expansion syntax with planted variables; every file-system call made on behalf of a name is watched through audit events, writes are refused by the library now and then.')
RULE_MORE = RULE_MORE + ' Round 11: configurations with ENABLE_TAGS off.'
RULE_MORE = RULE_MORE + ' Round 12: exists() before and after every create; what the database module probes with exists() is watched like the audited calls.'
RULE = RULE + RULE_MORE
EXHAUSTIVE = {'quick': True, 'thorough': True}
EXHAUSTIVE_OVER = 'all strings of length <= L over the 8-symbol hostile alphabet (L=5 quick, L=6 thorough)'
ASSUMPTIONS = ['whisper and ceres are absent: stand-in modules record file-system effects only; the Whisper path is '
               "computed by carbon's own code; for Ceres the node-path -> file-path step (join(root, nodePath.replace('.', os.sep))) "
               'is reproduced from upstream ceres.CeresTree and is an assumption',
               'NUL excluded (rejected by the OS before any path logic)']

# environment / home expansion syntaxes; VERIF_DOTS, VERIF_ABS and VERIF_NAME are planted in the worker's environment
SHELLISH = ['a.$VERIF_DOTS.$VERIF_DOTS.$VERIF_DOTS.x', 'a.${VERIF_DOTS}.${VERIF_DOTS}.${VERIF_DOTS}.x', '$VERIF_ABS', 'x.$VERIF_ABS.y', 'servers.$VERIF_NAME.load',
            'servers.graphite01.load', 'servers.${VERIF_NAME}.load', '$HOME', 'a.$HOME', '${HOME}.x', '~', '~.x', '~root.x', 'a.~.b', '%VERIF_DOTS%', 'a.%VERIF_DOTS%.%VERIF_DOTS%.b',
            'x;t=$VERIF_DOTS/$VERIF_DOTS/$VERIF_DOTS/y', 'x;t=${VERIF_ABS}', 'a.$(id).b', 'a.`id`.b', 'a.$VERIF_UNSET.b', '$', '$$', 'a.$.b']
# names that end in (or contain) the backends' own file / directory suffixes
SUFFIXISH = ['app.db', 'app.db.wsp', 'app.db.wsp.wsp', 'wsp', 'app.wsp.db', 'app.db.WSP', 'app.db.slice', 'app.db.ceres-node', 'app.db..wsp', 'app.dbwsp',
             'app.db.tmp', 'app.db.lock', 'app.db.wsp;a=b', 'app.db;a=wsp']
CLASSICS = SHELLISH + SUFFIXISH + ['../x', '/abs', '/etc/passwd', 'a/../../b', '..;a=b', ';a=../..', '....//....//x', '/../../x', '//x', '/.x',
            './x', 'a/./b', '~/x', '~root', '_tagged/../../x', '_tagged.aaa.bbb.x', 'a;b=/../../..', 'a;b=/abs',
            '/;a=b', '../..;a=b', 'a.b./../..', '.', '..', '...', '/', '//', 'a/', '/a', 'a//b', 'a/..', '\\..\\x',
            'a;b=c/../../../../../../x', '..a', 'a..', '.a', 'a.', ';', ';=', '=;', 'a;', 'a;b', 'a;=b', 'a;b=',
            # unicode look-alikes of '.', '..' and '/' (compatibility forms), composed vs decomposed letters
            'x.\u2025.\u2025.\u2025.outside', '\u2025/\u2025/x', '\uff0fabs', '\uff0f\uff0fx', 'a\uff0f..\uff0f..\uff0fb', '\u2024\u2024/x',
            'a.\uff0e\uff0e.b', '\ufe52\ufe52/x', 'x;t=\u2025/\u2025/\u2025/y', 'x;t=\uff0fabs', '\u2215abs', '\u2044abs', '\u29f8abs',
            'a;b=\ud800', '\udc80;x=y', 'm;t=\udfff.z', 'plain\ud800', 'a;b=\ud800', 'a;b=c', 'a;b=\ud800',
            'app.\uff42.count', 'app.b.count', 'caf\u00e9.x', 'cafe\u0301.x', '\uff21.b', 'A.b', '\u2460.x', '1.x', '\ufb01.x', 'fi.x']
UNI_ALPHA = ['.', '/', 'a', ';', '\u2025', '\u2024', '\uff0f', '\uff0e']


def configs(tier, seed):
  L = 5 if tier == 'quick' else 6
  cfgs = []
  for backend in ('whisper', 'ceres'):
    for hashf in (True, False):
      firsts = ALPHA
      for f in firsts:
        cfgs.append(dict(name='%s/hash=%s/first=%s' % (backend, hashf, f), backend=backend, hashf=hashf, first=f, L=L))
      # a daemon running without tag support (ENABLE_TAGS = False) receives the same names
      for f in [c for c in (';', 'a', '/', '.') if c in ALPHA]:
        cfgs.append(dict(name='%s/hash=%s/notags/first=%s' % (backend, hashf, f), backend=backend, hashf=hashf, first=f, L=L, notags=True))
  return cfgs


def well_formed_untagged(name):
  if ';' in name or '/' in name or os.sep in name:
    return False
  segs = name.split('.')
  return all(segs)


def run_config(cfg, res):
  from vlib import boot
  backend = cfg['backend']
  conf = {'TAG_HASH_FILENAMES': cfg['hashf']}
  if cfg.get('notags'):
    conf['ENABLE_TAGS'] = False
  ns = boot.boot('carbon-cache', conf, standins=('whisper', 'ceres'), database=backend)
  db = ns.state.database
  # scratch layout: <root>/storage/whisper is LOCAL_DATA_DIR; decoys next to it so that an escape has somewhere to land
  data_dir = ns.settings.LOCAL_DATA_DIR
  parent = os.path.dirname(data_dir)
  for decoy in ('whisper-evil', 'x', 'b', 'a'):
    os.makedirs(os.path.join(parent, decoy), exist_ok=True)
  real_data = os.path.realpath(data_dir)
  if type(db).__name__ not in ('WhisperDatabase', 'CeresDatabase'):
    res.inconc('unexpected database class %s' % type(db).__name__)
    return
  r = gen.rng(cfg['seed'], 'C14', cfg['name'])
  first = cfg['first']
  os.environ.update(VERIF_DOTS='..', VERIF_ABS='/tmp/verif-abs', VERIF_NAME='graphite01')
  os.environ.pop('VERIF_UNSET', None)

  def names():
    if first == ALPHA[0]:
      for c in CLASSICS:
        yield c
      for _ in range(3000 if cfg['tier'] == 'quick' else 40000):
        n = r.randint(5, 40)
        yield ''.join(r.choice(ALPHA + ['b', 'c', '..', '/../', '中', '_tagged', ';x=', '\u2025', '\uff0f', '\uff0e', '\u2024', ';t=\ud800']) for _ in range(n))
      # names that look like the encoder's own output for tagged series (_tagged/<3 hex>/<3 hex>/...), with every count
      # of leading underscores (an escaping scheme must escape its own escape)
      for base in ('tagged.abc.def.x', 'tagged.0a1.b2c.cpu;like', 'tagged.abc.def.x.y', 'tagged.abc.def', 'tagged.ABC.def.x', 'tagged.abcd.ef.x', 'tagged'):
        for k in range(0, 5):
          yield '_' * k + base.split(';')[0]
          yield '_' * k + base.split(';')[0] + '_'
          # ... and tagged series whose name looks like that output, with every kind of hostile tag value behind it
          for tail in (';t=/../../../../../y', ';t=v', ';a=..;b=/', ';t=../../../../x', ';t=/abs', ';a=b;t=/../../../../../../etc/x'):
            yield '_' * k + base.split(';')[0] + tail
      # long names: segments around the file systems' 255-byte component limit (with and without room for an
      # extension), each followed by neighbours that differ from it in exactly one character - at the ends, in the
      # middle and around the limit - including characters whose UTF-8 encodings share their leading or trailing bytes
      siblings = [('\u00e9', '\u0169'), ('\u20ac', '\u30ac'), ('\u00e9', '\u00ea'), ('a', 'b'), ('\u4e2d', '\u4e2e'), ('\U0001F600', '\U0001F601')]
      for nbytes in ([200, 240, 251, 255, 256, 300] if cfg['tier'] == 'quick' else [100, 200, 230, 240, 247, 250, 251, 252, 254, 255, 256, 260, 300, 512, 1024]):
        for where in ('last', 'middle', 'only'):
          for a, b in siblings:
            chars = []
            size = 0
            while size < nbytes:
              c = r.choice([a, a, 'x', 'y', 'z', '_', '-', '0'])
              chars.append(c)
              size += len(c.encode('utf-8'))
            pre, post = ('p.', '') if where == 'last' else (('p.', '.q') if where == 'middle' else ('', ''))
            yield pre + ''.join(chars) + post
            idxs = [i for i, c in enumerate(chars) if c == a]
            pick = set(idxs[:1] + idxs[-1:] + [idxs[len(idxs) // 2]])
            off = 0
            for i, c in enumerate(chars):                    # every occurrence of `a` lying around byte offsets 225..260
              if c == a and 225 <= off <= 260:
                pick.add(i)
              off += len(c.encode('utf-8'))
            for i in sorted(pick):
              nb = list(chars)
              nb[i] = b
              yield pre + ''.join(nb) + post
    # second exhaustive family: unicode compatibility look-alikes of the path characters (length <= 4)
    if first in UNI_ALPHA or first == ALPHA[1]:
      f2 = UNI_ALPHA[ALPHA.index(first) % len(UNI_ALPHA)] if first not in UNI_ALPHA else first
      for L in range(0, 4):
        for rest in itertools.product(UNI_ALPHA, repeat=L):
          yield f2 + ''.join(rest)
      for f3 in UNI_ALPHA[4:]:
        if ALPHA.index(first) == UNI_ALPHA.index(f3) % len(ALPHA):
          for L in range(0, 4):
            for rest in itertools.product(UNI_ALPHA, repeat=L):
              yield f3 + ''.join(rest)
    yield first
    for L in range(1, cfg['L']):
      for rest in itertools.product(ALPHA, repeat=L):
        yield first + ''.join(rest)

  seen_paths = {}
  nfresh = [0]
  # every file-system call the database makes on behalf of a name (audit events) must stay inside the data directory
  armed = [False]
  escapes = []

  def fs_hook(ev, args):
    if not armed[0]:
      return
    if ev == 'open':
      if not (isinstance(args[0], (str, bytes)) and isinstance(args[1], str) and any(c in args[1] for c in 'wax+')):
        return
      paths = [args[0]]
    elif ev in ('os.rename', 'os.mkdir', 'os.remove', 'os.symlink', 'os.link', 'os.truncate', 'os.rmdir', 'shutil.move', 'shutil.copyfile', 'os.chmod', 'os.chown'):
      paths = [a for a in args[:2] if isinstance(a, (str, bytes))]
    else:
      return
    armed[0] = False
    try:
      for p_ in paths:
        if isinstance(p_, bytes):
          p_ = p_.decode('utf-8', 'surrogateescape')
        try:
          rp_ = os.path.realpath(p_)
        except Exception:
          rp_ = os.path.normpath(p_)
        if not (rp_ == real_data or rp_.startswith(real_data + os.sep)):
          escapes.append((ev, p_))
    finally:
      armed[0] = True
  sys.addaudithook(fs_hook)
  # probing is a file-system call too (no audit event exists for stat): what the database module asks `exists()` about on
  # behalf of a name must lie inside the data directory as well
  import carbon.database as _dbmod
  _real_exists = _dbmod.exists

  def _exists(path_):
    if armed[0]:
      armed[0] = False
      try:
        p_ = path_.decode('utf-8', 'surrogateescape') if isinstance(path_, bytes) else path_
        try:
          rp_ = os.path.realpath(p_)
        except Exception:
          rp_ = os.path.normpath(p_)
        res.count('existence_probes_watched')
        if not (rp_ == real_data or rp_.startswith(real_data + os.sep)):
          escapes.append(('exists', p_))
      finally:
        armed[0] = True
    return _real_exists(path_)
  _dbmod.exists = _exists
  created = 0
  create_budget = 1500 if cfg['tier'] == 'quick' else 8000
  label = '%s/hash=%s' % (backend, cfg['hashf'])
  for name in names():
    nontrivial = any(ch in name for ch in './;~')
    try:
      p1 = db.getFilesystemPath(name)
    except Exception as e:
      res.count('path_function_raised')
      res.case((label, name), nontrivial)
      # raising is acceptable (name rejected) but the mapping must stay a function: asking again must raise again
      try:
        again = db.getFilesystemPath(name)
      except Exception:
        continue
      res.violation(label + '/nondeterministic/raised-then-returned', 'getFilesystemPath(%r) raised %r, the next call returned %r' % (name, e, again),
                    dict(name=name))
      continue
    p2 = db.getFilesystemPath(name)
    res.count('path_evaluations')
    # the mapping may not depend on what was asked before: compare with an instance that has never seen another name
    nfresh[0] += 1
    if nfresh[0] % 7 == 0:
      fresh = type(db)(ns.settings)
      try:
        pf = fresh.getFilesystemPath(name)
      except Exception as e:
        pf = 'raised %r' % (e,)
      res.count('fresh_instance_comparisons')
      if pf != p1:
        res.violation(label + '/history-dependent', 'name %r maps to %r after other names were resolved, but to %r on a fresh database object' % (name, p1, pf),
                      dict(name=name))
    if p1 != p2:
      res.violation(label + '/nondeterministic', 'name %r maps to %r then %r' % (name, p1, p2), dict(name=name))
    try:
      rp = os.path.realpath(p1)
    except UnicodeEncodeError:      # a lone surrogate in the name: no file can be created under it; judge the string
      rp = os.path.normpath(p1)
      res.count('unencodable_paths')
    inside = rp.startswith(real_data + os.sep) or rp == real_data   # the root itself is not an escape
    if not inside:
      kind = 'absolute' if name.startswith('/') else ('dotdot' if '..' in os.path.normpath(os.path.relpath(rp, real_data)) else 'other')
      res.violation('%s/escape/%s' % (label, kind),
                    'name %r maps to %r (realpath %r), outside data dir %r' % (name, p1, rp, real_data),
                    dict(name=name, path=p1), case=dict(name=name))
    if well_formed_untagged(name):
      res.count('injectivity_evaluations')
      other = seen_paths.get(rp)
      if other is not None and other != name:
        res.violation(label + '/collision', 'distinct well-formed names %r and %r map to %r' % (other, name, rp),
                      dict(a=other, b=name))
      seen_paths[rp] = name
    # really create a deterministic subset
    if (created < create_budget and (len(name) <= 3 or r.random() < 0.15)
        and rp.startswith(os.path.realpath(ns.root) + os.sep)):   # never touch anything outside the scratch root
      created += 1
      armed[0] = True
      try:
        try:
          db.exists(name)            # what the writer asks first (with hashed file names this also looks for a file to migrate)
          res.count('exists_calls')
        except Exception:
          res.count('exists_raised')
        db.create(name, [(60, 10)], 0.5, 'average')
        res.count('creates_ok')
        try:
          if not db.exists(name):
            res.violation(label + '/created-but-absent', 'exists(%r) is False right after create()' % (name,), dict(name=name))
        except Exception:
          res.count('exists_raised')
        if created % 3 == 0:
          # ... and written to, the library refusing the write now and then (a corrupt file, an I/O error)
          wsp = sys.modules.get('whisper')
          if wsp is not None and hasattr(wsp, 'NEXT_UPDATE_FAULT'):
            wsp.NEXT_UPDATE_FAULT[0] = [None, 'CorruptWhisperFile', 'IOError', 'CorruptWhisperFile'][(created // 3) % 4]
          try:
            db.write(name, [(1500000000, 1.0)])
            res.count('writes_ok')
          except Exception:
            res.count('writes_raised')
      except Exception:
        res.count('creates_raised')
      finally:
        armed[0] = False
      if escapes:
        ev_, p_ = escapes[0]
        res.violation(label + '/touched-outside/%s' % ev_, 'while creating / writing %r the database touched %r (%s), outside data dir %r' % (name, p_, ev_, real_data),
                      dict(name=name), case=dict(name=name))
        del escapes[:]
    res.case((label, name), nontrivial)
    if nontrivial:
      res.sample(dict(backend=backend, hashf=cfg['hashf'], name=name, path=p1))
  # two threads (the writer and the reactor serving get-/set-metadata) resolve different names at the same time: each must
  # get the path of its own name, at every interleaving of source lines
  if first == ALPHA[0]:
    from vlib import sched as S
    pairs = [('a.b.c', 'x.y'), ('t;k=v', 'u;k=w'), ('m1', 'm1;a=b'), ('é.x', 'a./b')]
    for (na, nb) in pairs:
      expect = {na: db.getFilesystemPath(na), nb: db.getFilesystemPath(nb)}
      def run(dev):
        sc = S.Scheduler(S.DeviationPolicy(dev), trace_files={'database.py', 'util.py'})
        got = {}
        def ta():
          got['a'] = [db.getFilesystemPath(na), db.getFilesystemPath(na)]
        def tb():
          got['b'] = [db.getFilesystemPath(nb), db.getFilesystemPath(nb)]
        sc.spawn('writer', ta)
        sc.spawn('reactor', tb)
        err = sc.run(20)
        res.count('two_thread_schedules')
        if err is not None:
          res.inconc('scheduler: %r' % (err,))
          return sc
        for key, nm in (('a', na), ('b', nb)):
          if any(t.exc for t in sc.threads):
            res.violation(label + '/concurrent/raised', 'getFilesystemPath raised under concurrency: %r' % [t.exc for t in sc.threads])
          elif got.get(key) != [expect[nm], expect[nm]]:
            res.violation(label + '/concurrent/wrong-path', 'while another thread resolved %r, name %r was mapped to %r instead of %r (deviations %r)' % (
              nb if key == 'a' else na, nm, got.get(key), expect[nm], dev), dict(names=[na, nb], deviations=dev))
        return sc
      s0 = run({})
      for i in range(s0.decision_no + 1):
        run({i: 1})
  # walk everything under the scratch parent: anything created outside the data dir is an escape
  outside = []
  known_decoys = {os.path.join(parent, d) for d in ('whisper-evil', 'x', 'b', 'a', 'log')}
  for dirpath, dirnames, filenames in os.walk(parent):
    rpd = os.path.realpath(dirpath)
    if rpd == real_data or rpd.startswith(real_data + os.sep):
      continue
    for fn in filenames:
      outside.append(os.path.join(dirpath, fn))
    for dn in dirnames:
      full = os.path.join(dirpath, dn)
      if os.path.realpath(full) == real_data or full in known_decoys:
        continue
      outside.append(full + '/')
  res.count('tree_walks')
  if outside:
    res.violation(label + '/created-outside', 'database.create() produced entries outside the data dir: %r' % outside[:5],
                  dict(outside=outside[:20]))
  # also the conf dir / root must be untouched
  for extra in ('/tmp/x.wsp', '/x.wsp', '/abs.wsp'):
    if os.path.exists(extra):
      res.violation(label + '/created-absolute', 'file %s exists after the run' % extra)


def classify(v):
  return None
