"""C05 — hash routing returns a well-formed replica set for every metric (DESIGN.md 3/C05)."""
import time

from vlib import gen

PROPERTY = 'C05'
LEVEL = 'exploration'
RULE = ('cell = (router class, hash type, destination set, replication factor, DIVERSE_REPLICAS); for each cell '
        'getDestinations() is executed twice for one key per ring position 0..65535 (keys found by hashing '
        'candidate strings) plus random metric names; a cell is non-trivial when it has >=2 destinations or '
        'RF>=2; after the fresh sweep up to 4 remove/re-add steps are applied and the oracle is re-run on every 16th '
        'position against the then-configured set; distinct = distinct cells')
RULE_MORE = (' Also: empty destination sets, node names colliding in the 16-bit hash, instances announced again on another port, name caches (CACHE_METRIC_NAMES_MAX) with repeat lookups after many other keys, aggregated routers checked against the union over their aggregate names.')
RULE_MORE = RULE_MORE + ' Round 12: look-ups of the same router in flight at once (generator consumed partly, another key routed, then finished).'
RULE = RULE + RULE_MORE
EXHAUSTIVE = {'quick': True, 'thorough': True}
EXHAUSTIVE_OVER = 'ring positions 0..65535 per cell (key space of the ring through the public API)'
ASSUMPTIONS = ['mmh3_ch hash type not runnable (mmh3 absent): only carbon_ch and fnv1a_ch are quantified over',
               'destination sets bounded to <=8 triples, RF<=4']

ROUTERS = ['consistent-hashing', 'fast-hashing', 'aggregated-consistent-hashing', 'fast-aggregated-hashing']


def cells(tier, seed):
  r = gen.rng(seed, 'C05')
  out = []
  corner_sets = [
    [('10.0.0.1', 2004, None)],
    [('10.0.0.1', 2004, 'a')],
    [('10.0.0.1', 2004, 'a'), ('10.0.0.1', 2104, 'b')],                      # one server, two instances
    [('10.0.0.1', 2004, 'a'), ('10.0.0.1', 2104, 'b'), ('10.0.0.1', 2204, 'c')],
    [('10.0.0.1', 2004, 'a'), ('10.0.0.2', 2004, 'a')],                      # same instance name (fnv collisions)
    [('10.0.0.1', 2004, None), ('10.0.0.2', 2004, None), ('hostA', 2004, None)],
    [('10.0.0.1', 2004, 'a'), ('10.0.0.1', 2104, 'b'), ('10.0.0.2', 2004, 'a'), ('10.0.0.2', 2104, 'b')],
  ]
  nrandom = 6 if tier == 'quick' else 30
  sets = list(corner_sets)
  for i in range(nrandom):
    n = 1 + (i % 8)
    sets.append(gen.dest_set(r, n, max_servers=r.choice([1, 2, 3, 8])))
  for ds in sets:
    for rf in ([1, 2, 3, 4] if tier == 'thorough' or len(ds) <= 4 else [1, 2, 4]):
      for diverse in (True, False):
        out.append(dict(dests=[list(d) for d in ds], rf=rf, diverse=diverse))
  return out


def configs(tier, seed):
  cs = cells(tier, seed)
  cfgs = []
  routers = ROUTERS if tier == 'thorough' else ROUTERS[:2] + ROUTERS[2:3]
  for router in routers:
    for ht in ('carbon_ch', 'fnv1a_ch'):
      sub = cs
      if router.find('aggregated') >= 0:
        sub = cs[::4]
      if tier == 'quick':
        sub = sub[::2] if router == 'fast-hashing' else sub
      nshard = 4 if tier == 'quick' else 8
      for s in range(nshard):
        part = sub[s::nshard]
        if part:
          cfgs.append(dict(name='%s/%s/%d' % (router, ht, s), router=router, hash_type=ht, cells=part))
  return cfgs


# 'app.<env>.<host>.count' matches three rules with three different aggregate names, whose replica sets may overlap
AGG_RULES = ("agg.<env>.total (10) = sum app.<env>.*.count\nall.hits (60) = sum app.*.*.hits\n"
             "agg.<env>.byhost.<host> (10) = avg app.<env>.<host>.count\nall.count (60) = sum app.*.*.count\n")


def expected_aggregates(name):
  """Aggregate names the rules above give `name` (None = not covered by this little model)."""
  p = name.split('.')
  if len(p) == 4 and p[0] == 'app' and all(p) and p[3] == 'count':
    return ['agg.%s.total' % p[1], 'agg.%s.byhost.%s' % (p[1], p[2]), 'all.count']
  if len(p) == 4 and p[0] == 'app' and all(p) and p[3] == 'hits':
    return ['all.hits']
  return None


def check_key(res, router, key, cell, configured, eligible, label):
  try:
    d1 = list(router.getDestinations(key))
    d2 = list(router.getDestinations(key))
  except Exception as e:
    res.violation('%s/%s/raised/%s' % (label, 'diverse' if cell['diverse'] else 'plain', type(e).__name__),
                  'getDestinations(%r) raised %r with destinations %r' % (key, e, cell['dests']), dict(key=key, cell=cell))
    return False
  res.count('getDestinations_calls', 2)
  want = min(cell['rf'], eligible)
  sigbase = '%s/%s' % (label, 'diverse' if cell['diverse'] else 'plain')
  wit = dict(key=key, cell=cell, got=[list(d) for d in d1])
  if len(d1) != want:
    res.violation(sigbase + '/len:%s-vs-%s' % (('short' if len(d1) < want else 'long'), 'n%d' % min(len(cell['dests']), 2)),
                  'key %r: %d destinations returned, expected min(RF=%d, eligible=%d)=%d: %r' % (
                    key, len(d1), cell['rf'], eligible, want, d1), wit)
    return False
  if len(set(d1)) != len(d1):
    res.violation(sigbase + '/repeat/n%d' % min(len(cell['dests']), 2),
                  'key %r: repeated destination in %r' % (key, d1), wit)
    return False
  for d in d1:
    if d not in configured:
      res.violation(sigbase + '/unconfigured', 'key %r: destination %r not configured' % (key, d), wit)
      return False
  if cell['diverse'] and len(set(d[0] for d in d1)) != len(d1):
    res.violation(sigbase + '/same-server', 'key %r: two replicas share a server: %r' % (key, d1), wit)
    return False
  if d1 != d2:
    res.violation(sigbase + '/unstable', 'key %r: two calls differ: %r vs %r' % (key, d1, d2), wit)
    return False
  # getDestinations() is a generator: a look-up that is still in flight (its consumer took the first destination only)
  # while the same router answers another key must come out as if it had been alone
  _N[0] += 1
  prev = _LAST.get(id(router))
  _LAST[id(router)] = key
  if prev is not None and prev != key and _N[0] % 8 == 0:
    try:
      it = iter(router.getDestinations(key))
      first = [d for _, d in zip(range(1), it)]
      other = list(router.getDestinations(prev))
      rest = list(it)
      alone = list(router.getDestinations(prev))
    except Exception as e:
      res.violation(sigbase + '/interleaved/raised/%s' % type(e).__name__, 'interleaved look-ups of %r and %r raised %r' % (key, prev, e), wit)
      return False
    res.count('interleaved_lookups')
    if first + rest != d1 or other != alone:
      res.violation(sigbase + '/interleaved', 'key %r looked up while %r was in flight: %r / %r, alone they give %r / %r' % (
        prev, key, first + rest, other, d1, alone), wit)
      return False
  return True


_LAST = {}
_N = [0]


def run_config(cfg, res):
  from vlib import boot
  from vlib.refs import ring as refring
  # every other shard runs with the name caches the example configuration suggests (small, so that entries get evicted)
  ncache = 40 if cfg['name'].rsplit('/', 1)[-1] in ('1', '3', '5', '7') else 0
  ns = boot.boot('carbon-relay', {'RELAY_METHOD': cfg['router'], 'ROUTER_HASH_TYPE': cfg['hash_type'],
                                  'DESTINATIONS': '127.0.0.1:2004:a', 'CACHE_METRIC_NAMES_MAX': ncache,
                                  # several connections per host:port (DESTINATION_POOL_REPLICAS) on some shards
                                  'DESTINATION_POOL_REPLICAS': cfg['name'].rsplit('/', 1)[-1] in ('2', '3', '6')},
                 files={'aggregation-rules.conf': AGG_RULES,
                        'relay-rules.conf': '[default]\ndefault = true\ndestinations = 127.0.0.1:2004:a\n'})
  settings = ns.settings
  from carbon.routers import DatapointRouter
  r = gen.rng(cfg['seed'], 'C05', cfg['name'])
  table = refring.key_table(cfg['hash_type'])
  names = [gen.metric_name(r) for _ in range(300 if cfg['tier'] == 'quick' else 1500)]
  names += ['app.prod.web%d.count' % i for i in range(20)] + ['app.x.y.hits', 'agg.prod.total']
  cls = DatapointRouter.plugins[settings.RELAY_METHOD]
  aggregated = 'aggregated' in cfg['router']
  cells_here = list(cfg['cells'])
  if cfg['name'].endswith('/0'):
    # destinations whose node names share a 16-bit hash position (the fast ring places a node by one hash of its name;
    # the consistent ring by 100 replica keys): found with the reference hash, then given to the router like any others
    seen_pos, pair = {}, None
    for i in range(5000):
      node = ('cache-%04d.example.com' % i, 'a')
      pnode = refring.position(str(node), cfg['hash_type'])
      if pnode in seen_pos:
        pair = (seen_pos[pnode], node)
        break
      seen_pos[pnode] = node
    if pair:
      d0, d1 = (pair[0][0], 2004, pair[0][1]), (pair[1][0], 2004, pair[1][1])
      for rf in (1, 2, 3):
        for diverse in (True, False):
          cells_here.append(dict(dests=[list(d0), list(d1)], rf=rf, diverse=diverse, colliding=True))
          cells_here.append(dict(dests=[list(d0), ['10.0.0.9', 2004, 'b'], list(d1)], rf=rf, diverse=diverse, colliding=True))
      res.count('cells_with_colliding_node_names', 12)
  for cell in cells_here:
    settings['REPLICATION_FACTOR'] = cell['rf']
    settings['DIVERSE_REPLICAS'] = cell['diverse']
    if aggregated:
      from carbon.aggregator.rules import RuleManager
      if RuleManager.read_task.running:
        RuleManager.read_task.stop()
    router = cls(settings)
    dests = [tuple(d) for d in cell['dests']]
    # a relay whose destinations are not up yet (DYNAMIC_ROUTER) routes with an empty set: min(RF, 0) = 0 destinations
    empty_target = router.hash_router if aggregated else router
    for key in ('a.b.c', 'x', table[7]):
      check_key(res, empty_target, key, dict(cell, dests=[], history=['nothing added yet']), set(), 0,
                cfg['router'] + '/' + cfg['hash_type'] + '/empty')
    res.count('empty_set_lookups', 3)
    try:
      for d in dests:
        router.addDestination(d)
    except Exception as e:
      res.violation('%s/%s/addDestination-raised/%s' % (cfg['router'], cfg['hash_type'], type(e).__name__),
                    'addDestination(%r) raised %r while configuring %r' % (d, e, dests), dict(cell=cell))
      continue
    configured = set(dests)
    eligible = len(set(d[0] for d in dests)) if cell['diverse'] else len(dests)
    target = router.hash_router if aggregated else router
    positions = set()
    ok = True
    t0 = time.time()
    pos_of = target.ring.compute_ring_position if hasattr(target.ring, 'compute_ring_position') else target.ring._hash
    for key in table:
      positions.add(pos_of(key) & 0xffff)
      if not check_key(res, target, key, cell, configured, eligible, cfg['router'] + '/' + cfg['hash_type']):
        ok = False
        break
    if ok:
      for key in names:
        if not check_key(res, target, key, cell, configured, eligible, cfg['router'] + '/' + cfg['hash_type']):
          break
        if aggregated:
          # outer router: destination *set* of a name is the union of its aggregates' hash lookups; must be
          # configured, free of repeats and stable
          o1 = list(router.getDestinations(key))
          o2 = list(router.getDestinations(key))
          if len(set(o1)) != len(o1) or not set(o1) <= configured or set(o1) != set(o2):
            res.violation(cfg['router'] + '/outer', 'aggregated router output malformed for %r: %r / %r' % (key, o1, o2),
                          dict(key=key, cell=cell))
            break
          aggs = expected_aggregates(key)
          if aggs is not None:
            want = set()
            for a in aggs:
              want |= set(target.getDestinations(a))
            res.count('aggregated_names_with_several_aggregates', 1 if len(aggs) > 1 else 0)
            if set(o1) != want:
              res.violation(cfg['router'] + '/outer-union', 'aggregated router sends %r to %r, the union over its aggregate names %r is %r' % (
                key, sorted(o1, key=str), aggs, sorted(want, key=str)), dict(key=key, cell=cell))
              break
    # membership changes: the same structural oracle must hold for whatever set is configured *now*
    if ok and len(dests) >= 2:
      live = list(dests)
      steps = []
      probe = names[:30] + table[7::2200]
      for k in probe:
        list(target.getDestinations(k))        # routed once before anything changes
      for step in range(4):
        if len(live) > 1 and (step % 2 == 0 or len(live) == len(dests)):
          # prefer removing one instance of a server that has several
          multi = [d for d in live if sum(1 for e in live if e[0] == d[0]) > 1]
          victim = r.choice(multi or live)
          router.removeDestination(victim)
          live.remove(victim)
          steps.append(['remove', list(victim)])
        else:
          gone = [d for d in dests if d not in live]
          if not gone:
            break
          back = r.choice(gone)
          router.addDestination(back)
          live.append(back)
          steps.append(['add', list(back)])
        # an instance that is already configured is announced again on another port (a typo in DESTINATIONS, a second
        # relay process): refused or not, lookups keep returning configured triples only
        if step % 2 == 1 and live:
          twin = r.choice(live)
          try:
            router.addDestination((twin[0], twin[1] + 7, twin[2]))
            steps.append(['add-again-on-other-port', list(twin), 'accepted'])
            live = [d for d in live if (d[0], d[2]) != (twin[0], twin[2])] + [(twin[0], twin[1] + 7, twin[2])]
          except Exception:
            steps.append(['add-again-on-other-port', list(twin), 'refused'])
          res.count('duplicate_instance_adds')
        conf_now = set(live)
        elig_now = len(set(d[0] for d in live)) if cell['diverse'] else len(live)
        cell_now = dict(cell, dests=[list(d) for d in live], history=steps)
        bad = False
        # the answer for a key does not change while the destination set does not: ask, ask about many other keys, ask again
        a1 = [tuple(target.getDestinations(k)) for k in probe]
        for k in table[11::160]:
          list(target.getDestinations(k))
        a2 = [tuple(target.getDestinations(k)) for k in probe]
        res.count('repeat_lookup_evaluations', len(probe))
        for k, x, y in zip(probe, a1, a2):
          if x != y:
            res.violation('%s/%s/unstable-across-lookups' % (cfg['router'], cfg['hash_type']), 'key %r: %r, and after other keys were looked up %r, with the same '
                          'destinations %r (history %r)' % (k, x, y, sorted(live, key=str), steps), dict(key=k, cell=cell_now))
            bad = True
            break
        for key in table[(step * 5) % 16::16]:
          if not check_key(res, target, key, cell_now, conf_now, elig_now, cfg['router'] + '/' + cfg['hash_type'] + '/after-membership-change'):
            bad = True
            break
        res.count('membership_change_sweeps')
        if bad:
          break
      else:
        # every destination marked down, then one comes back
        for d in list(live):
          router.removeDestination(d)
        steps.append(['remove-all'])
        for key in table[3::4096]:
          check_key(res, target, key, dict(cell, dests=[], history=steps), set(), 0,
                    cfg['router'] + '/' + cfg['hash_type'] + '/all-removed')
        back = r.choice(dests)
        router.addDestination(back)
        steps.append(['add', list(back)])
        for key in table[5::4096]:
          check_key(res, target, key, dict(cell, dests=[list(back)], history=steps), {back}, 1,
                    cfg['router'] + '/' + cfg['hash_type'] + '/one-back')
        res.count('empty_set_lookups', 16)
    res.maxc('max_positions_covered_in_a_cell', len(positions))
    if len(positions) < 65536 and ok:
      res.inconc('only %d/65536 ring positions covered by the key table (hash function differs from the reference?)'
                 % len(positions))
    res.case(dict(c=cell, n=cfg['name']), nontrivial=(len(dests) >= 2 or cell['rf'] >= 2))
    res.sample(dict(router=cfg['router'], hash_type=cfg['hash_type'], cell=cell, keys=len(table) + len(names)))
    res.count('cells')
    res.count('cell_seconds_x100', int(100 * (time.time() - t0)))


def classify(v):
  return None
