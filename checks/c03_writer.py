"""C03 — the writer persists each drained datapoint exactly once or accounts for it."""
import itertools

from vlib import gen

PROPERTY = 'C03'
LEVEL = 'fault_enumeration'
RULE = ('case = (strategy, create/update rate limits, workload of stores incl. new metrics appearing mid-pass, fault plan over the '
        'backend calls, thread schedule); the real writeForever() loop runs on the writer thread against an in-memory '
        'TimeSeriesDatabase plugin whose exists/create/write calls raise according to the plan; fault plans: EVERY assignment of '
        '{ok, raise} to the first n backend calls with <= k raises (n=8,k=2 quick; n=12,k=3 thorough) plus random longer plans, '
        'rotating exception types; each under baseline, mirrored, strided 1-preemption and random schedules; oracle: each drained '
        'batch maps to exactly one of {one successful write of the same points under its own metric, a droppedCreates increment, '
        'an errors increment / error-log event}; counters equal the backend log; no write without a file; accepted = written + '
        'dropped + errored + still cached; non-trivial = execution with >=1 injected fault reached or >=1 dropped create; '
        'distinct = (workload, fault plan, interleaving)')
RULE_MORE = (" Series names include '', names that are not valid tagged paths and names under CARBON_METRIC_PREFIX; 'lists' configurations run with USE_WHITELIST and lists matching half of the series.")
RULE_MORE = RULE_MORE + ' Round 11: backend faults that are OSErrors carrying an errno (EINTR, EAGAIN, ENOSPC, EIO, EROFS, EMFILE, EACCES).'
RULE_MORE = RULE_MORE + ' Round 12: struct.error / OverflowError among the faults; rate-limited configurations on a moving clock.'
RULE = RULE + RULE_MORE
EXHAUSTIVE = {'quick': True, 'thorough': True}
EXHAUSTIVE_OVER = 'fault plans with <= k raises over the first n backend calls (n=8,k=2 quick; n=12,k=3 thorough) per workload'
ASSUMPTIONS = ['in-memory backend registered through the public plugin API; ENABLE_TAGS default (tag queue only observed not to raise)',
               'a batch whose processing raised out of the pass is accounted through the error-log event emitted by writeForever()']
TIMEOUT = {'quick': 900, 'thorough': 3000}

EXCS = ['IOError', 'OSError', 'ValueError', 'InjectedFault', 'KeyError', 'RuntimeError', 'EINTR', 'EAGAIN', 'ENOSPC', 'EIO', 'EROFS', 'EMFILE', 'EACCES', 'struct.error', 'OverflowError']


def configs(tier, seed):
  cfgs = []
  strategies = ['sorted', 'max', 'naive', 'timesorted', 'bucketmax', 'random']
  limits = [('inf', 'inf'), (1, 'inf'), (2, 'inf'), (60, 'inf'), ('inf', 2), (2, 5)]
  i = 0
  for st in strategies:
    for (cr, up) in (limits if tier == 'thorough' else [limits[i % 6], limits[(i + 1) % 6]]):
      cfgs.append(dict(name='%s/c%s/u%s' % (st, cr, up), strategy=st, creates=cr, updates=up))
    i += 1
  # USE_WHITELIST with lists that match half of the series: the lists are the listeners' business, what is in the cache
  # (stored before a list changed, carbon's own metrics, re-injected relay buffers) is written like anything else
  for st in strategies[:2] if tier == 'quick' else strategies:
    cfgs.append(dict(name='%s/lists' % st, strategy=st, creates='inf', updates='inf', lists=True))
  # rate limits on a clock that moves a little with every look at it: the time the bucket computes it still has to wait
  # may already be over when it gets round to sleeping
  for k, st in enumerate(strategies[2:4] if tier == 'quick' else strategies):
    cfgs.append(dict(name='%s/c%s/u%s/jitter' % (st, 'inf', 2 + k), strategy=st, creates='inf', updates=2 + k, jitter=[0.02, 0.15, 0.4][k % 3]))
  return cfgs


def gen_workload(r):
  nm = r.randint(1, 6)
  metrics = ['w%d' % i for i in range(nm)] + (['tag;a=b'] if r.random() < 0.2 else []) + ([''] if r.random() < 0.1 else []) + \
    ([r.choice(['req;legacy', 'a;=b', 'x;k=', 'carbon.agents.h.cpuUsage', 'carbon.relays.r.sent;a=b', 'é.ü;t=é'])] if r.random() < 0.3 else []) + \
    (r.choice([['w0.', 'w0'], ['.w1', 'w1'], ['w0..x', 'w0.x'], ['W0', 'w0'], ['w0 ', 'w0'], ['w0.wsp', 'w0']]) if r.random() < 0.25 else [])     # near-identical names are different series
  ops = []
  n = r.randint(3, 14)
  for i in range(n):
    ts = 999900 + r.randrange(4)
    if r.random() < 0.3:
      ts += r.choice([0.25, 0.5, 0.75])      # sub-second clients: several points of one metric within one second
    ops.append(('store', r.choice(metrics), ts))
    if r.random() < 0.25:
      ops.append(('sleep', r.choice([0.05, 0.5, 1.5])))
  ops.append(('sleep', 2.5))
  if r.random() < 0.5:
    ops.append(('store', r.choice(metrics), 999905))
    ops.append(('sleep', 2.5))
  ops.append(('sleep', 70))      # lets a create token refill under MAX_CREATES_PER_MINUTE
  ops.append(('stop',))
  return ops


def fault_plans(n, k):
  for kk in range(0, k + 1):
    for idxs in itertools.combinations(range(n), kk):
      yield idxs


def run_config(cfg, res):
  from vlib import boot, cachesim, writersim, sched as S
  conf = {'CACHE_WRITE_STRATEGY': cfg['strategy'], 'MAX_CREATES_PER_MINUTE': cfg['creates'],
          'MAX_UPDATES_PER_SECOND': cfg['updates'], 'MAX_CACHE_SIZE': 'inf'}
  files = None
  if cfg.get('lists'):
    conf['USE_WHITELIST'] = True
    files = {'blacklist.conf': '^w[135]$\ncarbon\\.\n', 'whitelist.conf': '^only-this-one$\n'}
  ns = boot.boot('carbon-cache', conf, files=files)
  if cfg.get('lists'):
    import carbon.service as service
    service.createBaseService(None, ns.settings)       # the daemon's own wiring of the lists
  world = cachesim.World(ns, trace_files=('cache.py', 'events.py', 'writer.py'))
  world.vt.jitter = cfg.get('jitter', 0.0)
  r = gen.rng(cfg['seed'], 'C03', cfg['name'])
  n, k = (8, 2) if cfg['tier'] == 'quick' else (12, 3)
  label = cfg['strategy']
  nwl = 2 if cfg['tier'] == 'quick' else 3
  for w in range(nwl):
    ops = gen_workload(r)
    seen = set()

    def one(plan, policy, desc):
      h = world.run(ops, ('loop',), policy=policy, fault_plan=plan, timeout=60)
      res.count('schedules_executed')
      if h.sched_error is not None:
        res.inconc('%s: %s' % (type(h.sched_error).__name__, h.sched_error))
        return h
      faults_hit = sum(1 for e in h.backend if str(e['outcome']).startswith('raise:') and e['outcome'] != 'raise:nofile')
      res.count('injected_faults_reached', faults_hit)
      res.count('backend_calls', len(h.backend))
      res.count('batches_drained', sum(1 for d in h.drains if d.get('metric') is not None))
      res.count('dropped_creates', h.stats.get('droppedCreates', 0))
      key = (hash(repr(ops)), repr(sorted(plan.items())), h.trace_hash)
      if key not in seen:
        seen.add(key)
        res.case(hash(key), nontrivial=(faults_hit >= 1 or h.stats.get('droppedCreates', 0) >= 1))
      else:
        res.evaluations += 1
      viol, _ = writersim.check_writer_accounting(h)
      for name, e in h.thread_exc:
        viol.append(('thread-died/%s' % type(e).__name__, 'thread %s died with %r' % (name, e)))
      viol.extend(cachesim.check_conservation(h))
      for sig, msg in viol:
        res.violation(label + '/' + sig, '%s [%s creates=%s updates=%s plan=%r %s dev=%r] workload=%r' % (
          msg, cfg['strategy'], cfg['creates'], cfg['updates'], plan, desc, h.deviations, ops),
          dict(ops=ops, plan=plan, deviations=h.deviations), case=dict(ops=ops, plan=plan, deviations=h.deviations))
      return h

    h0 = one({}, S.DeviationPolicy({}), 'baseline')
    nplans = 0
    for idxs in fault_plans(n, k):
      plan = {i: EXCS[(i + len(idxs) + w) % len(EXCS)] for i in idxs}
      nplans += 1
      one(plan, S.DeviationPolicy({}), 'baseline')
      one(plan, S.DeviationPolicy({0: 1}), 'mirror')
      one(plan, S.RandomPolicy(gen.rng(r.random(), 'rp'), p=r.choice([0.05, 0.2])), 'random')
      if cfg['tier'] == 'thorough':
        one(plan, S.RandomPolicy(gen.rng(r.random(), 'rp'), p=0.5), 'random')
    res.count('fault_plans_enumerated', nplans)
    # no faults: preemption enumeration (strided)
    stride = 7 if cfg['tier'] == 'quick' else 2
    for d in range(0, h0.decisions + 2, stride):
      one({}, S.DeviationPolicy({d: 1}), 'preempt@%d' % d)
    # random longer plans
    for _ in range(20 if cfg['tier'] == 'quick' else 80):
      plan = {i: r.choice(EXCS) for i in range(40) if r.random() < 0.2}
      one(plan, S.RandomPolicy(gen.rng(r.random(), 'rp'), p=r.choice([0.05, 0.2, 0.5])), 'random')
    res.sample(dict(cfg=cfg['name'], workload=ops, example_plan={0: 'IOError', 3: 'ValueError'}), cap=2)


def finalize(merged, tier):
  c = merged['counters']
  out = []
  for k in ('injected_faults_reached', 'batches_drained', 'dropped_creates', 'fault_plans_enumerated'):
    if not c.get(k):
      out.append('monitor counter %s is zero' % k)
  return out


def classify(v):
  return None
