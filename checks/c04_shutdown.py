"""C04 — an orderly shutdown writes out everything that was accepted."""
from vlib import gen

PROPERTY = 'C04'
LEVEL = 'exploration'
RULE = ('case = (strategy, MIN_TIMESTAMP_LAG, update/create limits, MAX_UPDATES_PER_SECOND_ON_SHUTDOWN set/unset, workload of '
        'stores ending in the stop, thread schedule); the stop is delivered as Twisted orders it (before-shutdown trigger '
        'shutdownModifyUpdateSpeed() on the receiving thread, then reactor.running=False, then the writer thread is joined); the '
        'real writeForever() runs on the writer thread with the virtual clock; schedules: baseline, mirrored, EVERY placement of '
        'one preemption (i.e. the stop lands between any two line steps of the writer loop, incl. its idle sleep), strided '
        'second preemption, seeded random; oracle at writer-thread exit: every datapoint stored before the stop was initiated '
        'is written, counted as dropped create or reported as an error - none is still cached; non-trivial = execution in which '
        'the stop arrived while >=1 datapoint was cached or the writer was asleep; distinct = distinct interleavings per workload')
RULE_MORE = (' Further families: damaged files (every write to a set of series raises) with a burst over all series right before the stop; cache queries for absent series; timestamps outside any calendar; TokenBucket lines are scheduling points when an update limit is set.')
RULE_MORE = RULE_MORE + " Round 11: live edits of storage-schemas.conf (valid and broken) with the WriterService's reload tasks coming round on the reactor thread; faults carrying an errno."
RULE_MORE = RULE_MORE + ' Round 12: series whose tag part does not parse (accepted under the name they came with).'
RULE = RULE + RULE_MORE
EXHAUSTIVE = {'quick': True, 'thorough': True}
EXHAUSTIVE_OVER = 'all single-preemption placements (stop/last store vs every writer line step) of every generated workload'
ASSUMPTIONS = ['non-failing backend (faults are C03\'s subject)', 'virtual time <= 1 h; two threads; line granularity']
TIMEOUT = {'quick': 900, 'thorough': 3000}


def configs(tier, seed):
  cfgs = []
  strategies = ['sorted', 'max', 'naive', 'timesorted', 'bucketmax', 'random']
  i = 0
  for st in strategies:
    combos = []
    for lag in (0, 30):
      for up in ('inf', 2):
        for cr in ('inf', 1):
          for shut in (None, 50):
            combos.append((lag, up, cr, shut))
    if tier == 'quick':
      if st == 'timesorted':
        # the strategy that honours MIN_TIMESTAMP_LAG: always with a lag, with and without the shutdown rate
        combos = [(30, 'inf', 'inf', None), (30, 2, 1, 50), (30, 2, 'inf', None), (0, 'inf', 1, 50)]
      else:
        combos = [combos[(i * 5) % 16], combos[(i * 5 + 7) % 16], combos[(i * 5 + 10) % 16]]
    i += 1
    for (lag, up, cr, shut) in combos:
      cfgs.append(dict(name='%s/lag%d/u%s/c%s/s%s' % (st, lag, up, cr, shut), strategy=st, lag=lag, updates=up, creates=cr, shutdown=shut))
  return cfgs


SCHEMA_EDITS = [
  "[all]\npattern = .*\nretentions = 10s:1d\n",                                     # a valid edit
  "[s]\npattern = ^s\nretentions = 1s:1h,1m:1d\n[all]\npattern = .*\nretentions = 60s:1d\n",
  "[all]\npattern = .*\nretentions = 60s:1dd\n",                                    # a typo in a retention
  "[all]\npattern = .*\nretentions = sixty:1d\n",
  "[all]\npattern = .*\nretentions = \n",
  "[all]\npattern = (\nretentions = 60s:1d\n",                                      # a pattern that does not compile
  "[all]\nretentions = 60s:1d\n",                                                   # no pattern
  "[all\npattern = .*\n",                                                           # not an INI file any more
  "",
]


def gen_workload(r, lag, nm=None):
  nm = nm or r.randint(1, 4)
  metrics = ['s%d' % i for i in range(nm)]
  if r.random() < 0.15:
    metrics[r.randrange(nm)] = ''      # the pickle listener accepts a series whose name is the empty string
  if r.random() < 0.3:
    # series whose tag part does not parse are accepted under the name they came with (the write processor only logs that);
    # tagged series, carbon's own prefix, empty path elements
    metrics[r.randrange(nm)] = r.choice(['web.hits;host', 'a;b=', 'a;=1', 'x;', ';k=v', 'app.req.count;dc=east;az=b', 'cpu{core="0"', 'm;a=1;a=2',
                                         'carbon.agents.h.x', '.lead.dot', 'a..b'])
  ops = []
  n = r.randint(2, 8)
  for i in range(n):
    ts = 999900 + r.randrange(4) if not lag or r.random() < 0.5 else 1000000 + r.randrange(3)
    if r.random() < 0.25:
      ts += r.choice([0.25, 0.5, 0.75])      # sub-second clients
    if r.random() < 0.05:
      ts = r.choice([1727864000000, 253402300800, 10 ** 15]) + r.randrange(2)       # milliseconds, far-future garbage
    ops.append(('store', r.choice(metrics), ts))
    if r.random() < 0.3:
      ops.append(('sleep', r.choice([0.05, 0.6, 1.2, 2.5])))
    if r.random() < 0.12:
      ops.append(('query', r.choice(metrics + ['never.stored'])))     # graphite-web asks the cache for a series
    if r.random() < 0.06:
      ops.append(('reload', r.choice(SCHEMA_EDITS)))                  # a live edit of storage-schemas.conf, good or bad
  c = r.random()
  if c < 0.4:
    ops.append(('sleep', r.choice([0.3, 1.5, 2.2])))      # writer goes idle, then a late store right before the stop
    ops.append(('store', r.choice(metrics), 1000001))
  elif c < 0.6:
    ops.append(('sleep', 3.0))
  ops.append(('stop',))
  return ops


def run_config(cfg, res):
  from vlib import boot, cachesim, writersim, sched as S
  conf = {'CACHE_WRITE_STRATEGY': cfg['strategy'], 'MIN_TIMESTAMP_LAG': cfg['lag'], 'MAX_UPDATES_PER_SECOND': cfg['updates'],
          'MAX_CREATES_PER_MINUTE': cfg['creates'], 'MAX_CACHE_SIZE': 'inf'}
  if cfg['shutdown'] is not None:
    conf['MAX_UPDATES_PER_SECOND_ON_SHUTDOWN'] = cfg['shutdown']
  ns = boot.boot('carbon-cache', conf)
  # with a rate limit the writer spends its time inside TokenBucket: the stop may land on any of its lines too
  world = cachesim.World(ns, trace_files=('cache.py', 'events.py', 'writer.py') + (('util.py',) if cfg['updates'] != 'inf' else ()))
  r = gen.rng(cfg['seed'], 'C04', cfg['name'])
  label = cfg['strategy']
  for w in range(2 if cfg['tier'] == 'quick' else 4):
    ops = gen_workload(r, cfg['lag'])
    seen = set()

    def one(policy, desc, damaged=None):
      h = world.run(ops, ('loop',), policy=policy, timeout=60, drain_rest=False, fault_metrics=damaged)
      if damaged:
        res.count('schedules_with_damaged_files')
        desc = '%s damaged=%r' % (desc, sorted(damaged))
      res.count('schedules_executed')
      res.count('schema_file_edits_with_reload_tick', getattr(h, 'reloads', 0))
      res.count('reload_tasks_ended_by_their_function', getattr(h, 'reload_failures', 0))
      if h.sched_error is not None:
        res.inconc('%s: %s' % (type(h.sched_error).__name__, h.sched_error))
        return h
      viol, outcome = writersim.check_writer_accounting(h)
      for name, e in h.thread_exc:
        viol.append(('thread-died/%s' % type(e).__name__, 'thread %s died with %r' % (name, e)))
      # end-state conservation at writer-thread exit
      left = []
      for s in h.stores:
        if s['ret'] < h.stop_clock and not s['refused']:
          if h.final.get(s['metric'], {}).get(s['ts']) == s['value']:
            left.append((s['metric'], s['ts'], s['value']))
      stop_while_cached = bool(left) or any(d.get('metric') is not None and d['call'] > h.stop_clock for d in h.drains)
      res.count('stops_with_datapoints_cached', 1 if stop_while_cached else 0)
      if left:
        asleep = 'writer-asleep' if not any(d['call'] < h.stop_clock < d.get('ret', 10 ** 9) for d in h.drains) else 'mid-pass'
        viol.append(('left-in-cache/%s' % asleep, 'writer thread exited with datapoints accepted before the stop still cached: %r' % (left,)))
      # everything drained must be accounted (written / dropped / errored)
      for s in h.stores:
        if s['refused'] or h.final.get(s['metric'], {}).get(s['ts']) == s['value']:
          continue
      viol.extend(v for v in cachesim.check_conservation(h))
      key = (hash(repr(ops)), h.trace_hash)
      if key not in seen:
        seen.add(key)
        res.case(hash(key), nontrivial=stop_while_cached)
      else:
        res.evaluations += 1
      for sig, msg in viol:
        res.violation(label + '/' + sig, '%s [%s, %s dev=%r] workload=%r' % (msg, cfg['name'], desc, h.deviations, ops),
                      dict(ops=ops, deviations=h.deviations), case=dict(ops=ops, deviations=h.deviations))
      return h

    h0 = one(S.DeviationPolicy({}), 'baseline')
    one(S.DeviationPolicy({0: 1}), 'mirror')
    n0 = h0.decisions
    budget2 = 400 if cfg['tier'] == 'quick' else 2500
    for d in range(0, n0 + 3):
      hi = one(S.DeviationPolicy({d: 1}), 'preempt@%d' % d)
      # second preemption: a seeded sample of positions after the first (budgeted per workload)
      m = hi.decisions + 2 - (d + 1)
      take = max(1, budget2 // max(1, n0 + 3))
      if m > 0:
        for j in sorted(set(r.randrange(d + 1, hi.decisions + 2) for _ in range(min(take, m)))):
          one(S.DeviationPolicy({d: 1, j: 1}), 'preempt@%d,%d' % (d, j))
    for _ in range(30 if cfg['tier'] == 'quick' else 100):
      one(S.RandomPolicy(gen.rng(r.random(), 'rp'), p=r.choice([0.02, 0.1, 0.3]), q=r.choice([0.2, 0.5])), 'random')
    res.sample(dict(cfg=cfg['name'], workload=ops), cap=2)
    # damaged files: every write to some of the metrics raises, in the last pass as in every other; each of those batches
    # is accounted for as errored, and everything else that was accepted is still written out
    ops = gen_workload(r, cfg['lag'], nm=r.randint(3, 6))
    seen = set()
    metrics = sorted(set(o[1] for o in ops if o[0] == 'store'))
    # a burst over all metrics while the writer sleeps between two passes, then the stop: the last pass meets them all
    burst = list(metrics)
    r.shuffle(burst)
    ops = ops[:-1] + [('sleep', r.choice([0.3, 1.2, 2.4]))] + [('store', m, 1000001) for m in burst] + [('stop',)]
    excs = ['IOError', 'OSError', 'ValueError', 'KeyError', 'EINTR', 'EAGAIN', 'ENOSPC', 'EIO']
    for k in range(6 if cfg['tier'] == 'quick' else 20):
      dm = {m: excs[(k + i) % len(excs)] for i, m in enumerate(metrics) if r.random() < (0.9 if k % 2 else 0.5)}
      if not dm:
        continue
      hd = one(S.DeviationPolicy({}), 'baseline', dm)
      for d in sorted(set(r.randrange(0, hd.decisions + 2) for _ in range(6 if cfg['tier'] == 'quick' else 25))):
        one(S.DeviationPolicy({d: 1}), 'preempt@%d' % d, dm)
      for _ in range(4 if cfg['tier'] == 'quick' else 12):
        one(S.RandomPolicy(gen.rng(r.random(), 'rp'), p=r.choice([0.02, 0.1, 0.3]), q=r.choice([0.2, 0.5])), 'random', dm)


def finalize(merged, tier):
  c = merged['counters']
  out = []
  for k in ('schedules_executed', 'stops_with_datapoints_cached'):
    if not c.get(k):
      out.append('monitor counter %s is zero' % k)
  return out


def classify(v):
  return None
