"""C20 — update and create rate limits hold over every time window."""
import math

from vlib import gen

PROPERTY = 'C20'
LEVEL = 'exploration'
RULE = ('bucket mode: case = (capacity, rate, history of non-blocking / blocking acquisitions with fractional and unit costs, '
        'clock advances incl. 0 and 1e6, limit changes) executed on the real TokenBucket with carbon.util.time/sleep doubled by a '
        'virtual clock; EVERY pair of grants inside one limit regime is checked against sum(cost) <= rate*(tj-ti) + 2*capacity, '
        'every blocking wait against deficit/rate.  writer mode: real writeCachedDataPoints() under MAX_CREATES_PER_MINUTE / '
        'MAX_UPDATES_PER_SECOND incl. shutdownModifyUpdateSpeed(); the same window oracle on the virtual call times of '
        'database.create()/write(); non-trivial = history with >=1 refused or delayed acquisition; distinct = histories')
RULE_MORE = (' Writer mode also has persistent backend conditions (disk full, every write failing), series with 1000-3000 cached points and series under CARBON_METRIC_PREFIX; sched mode also raises the limits at shutdown and treats errors logged by the writer loop as violations.')
RULE_MORE = RULE_MORE + ' Rounds 10-11: the writer under a bounded cache with flow control and an overloading sender; all write strategies in writer mode; faults carrying an errno.'
RULE_MORE = RULE_MORE + ' Round 12: bucket mode on a clock that moves with every look at it; a backend refusing timestamps outside its 32-bit field.'
RULE = RULE + RULE_MORE
EXHAUSTIVE = {'quick': False, 'thorough': False}
EXHAUSTIVE_OVER = 'all grant pairs (i, j) of every executed history'
ASSUMPTIONS = ['after a limit change the new regime is checked with the new rate and twice the new capacity (a stale refill '
               'timestamp legitimately allows one refill to the new capacity on top of the adjusted balance)',
               'virtual clock: no real time passes; float tolerance 1e-6 on window sums']

EPS = 1e-6


def configs(tier, seed):
  cfgs = [dict(name='bucket/%d' % s, mode='bucket', shard=s) for s in range(4 if tier == 'quick' else 12)]
  wl = [(1, 'inf'), (2, 'inf'), (60, 'inf'), ('inf', 1), ('inf', 2), ('inf', 5), (3, 2), (60, 50)]
  for i, (cr, up) in enumerate(wl):
    for shut in ([None, 4] if tier == 'quick' else [None, 1, 4, 1000]):
      cfgs.append(dict(name='writer/c%s/u%s/s%s' % (cr, up, shut), mode='writer', creates=cr, updates=up, shutdown=shut))
  # the other write strategies decide what is drained next - none of them may let an update go by without a token
  for i, st in enumerate(('max', 'naive', 'timesorted', 'bucketmax', 'random')):
    for (cr, up) in ((('inf', 2),) if tier == 'quick' else (('inf', 2), (60, 5), ('inf', 1))):
      cfgs.append(dict(name='writer/c%s/u%s/%s' % (cr, up, st), mode='writer', creates=cr, updates=up, shutdown=None, strategy=st))
  # a bounded cache under flow control and a sender that overloads it: the cache-full / space-available events fire again
  # and again while the writer works under its limits
  for (cr, up, full) in ([('inf', 5, 30), (60, 20, 100)] if tier == 'quick' else [('inf', 5, 30), (60, 20, 100), ('inf', 1, 10), ('inf', 50, 400), (30, 'inf', 50)]):
    cfgs.append(dict(name='writer/c%s/u%s/full%d' % (cr, up, full), mode='writer', creates=cr, updates=up, shutdown=None, full=full))
  # the limit change at shutdown comes from the reactor thread while the writer thread is inside the bucket
  for (up, shut) in ((5, 1), (8, 2), (12, 3), (3, 50)):          # the last one raises the limits at shutdown (the documented use)
    for st in (('sorted',) if tier == 'quick' else ('sorted', 'max')):
      cfgs.append(dict(name='sched/u%s/s%s/%s' % (up, shut, st), mode='sched', updates=up, shutdown=shut, strategy=st))
  return cfgs


def check_windows(res, grants, regimes, label, wit):
  """grants: list of (t, cost, regime_index); regimes: list of (rate, capacity)."""
  n = len(grants)
  res.count('grant_pairs_checked', n * (n + 1) // 2)
  for i in range(n):
    ti, _, ri = grants[i]
    rate, cap = regimes[ri]
    s = 0.0
    for j in range(i, n):
      tj, cj, rj = grants[j]
      if rj != ri:
        break
      s += cj
      bound = rate * (tj - ti) + 2 * cap
      # tolerance: relative 1e-6 plus the resolution of the (virtual) clock at this magnitude times the rate
      if s > bound + EPS * max(1.0, bound) + rate * 8 * math.ulp(max(abs(ti), abs(tj), 1.0)):
        res.violation('%s/window-exceeded' % label,
                      '%.6g units granted in window [%.6f, %.6f] (length %.6g) but rate %.6g * w + 2 * burst %.6g = %.6g' % (
                        s, ti, tj, tj - ti, rate, cap, bound), wit)
        return False
  return True


def run_bucket(cfg, res):
  from vlib import boot, sched
  ns = boot.boot('carbon-cache', {})
  import carbon.util as util
  vt = sched.VTime()
  util.time = vt.time
  util.sleep = vt.sleep
  r = gen.rng(cfg['seed'], 'C20', cfg['name'])
  for case in range(150 if cfg['tier'] == 'quick' else 1500):
    cap = r.choice([1, 2, 5, 60, 1000])
    rate = r.choice([1.0 / 60, 0.5, 1, 2, 50, 500, 1000])
    b = util.TokenBucket(cap, rate)
    regimes = [(float(rate), float(cap))]
    vt.offset = 0.0
    vt.jitter = 0.0
    b.timestamp = vt.time()
    # every fifth case runs on a clock that moves a little with every look at it (a loaded machine): by the time the bucket
    # gets round to sleeping, the wait it computed may already be over
    if case % 5 == 4:
      vt.jitter = r.choice([1e-7, 1e-4, 0.01, 0.3]) / rate
      res.count('cases_on_a_moving_clock')
    grants = []
    ops = []
    refused = delayed = 0
    ok = True
    for step in range(r.randint(5, 120)):
      c = r.random()
      if c < 0.35:
        dt = r.choice([0, 0, 1e-9, 1.0 / rate, 0.5 / rate, 1, 10, 1e6, cap / rate, 3 * cap / rate])
        vt.offset += dt
        ops.append(('advance', dt))
      elif c < 0.75:
        ccap = regimes[-1][1]
        cost = r.choice([1, 1, 1, 0.5, 0.25, min(ccap, 2), ccap])
        got = b.drain(cost)
        ops.append(('drain', cost, got))
        if got is True:
          grants.append((vt.time(), cost, len(regimes) - 1))
        elif got is False:
          refused += 1
        else:
          res.violation('bucket/drain-result', 'drain() returned %r' % (got,), dict(ops=ops[-10:]))
      elif c < 0.95:
        ccap = regimes[-1][1]
        cost = r.choice([1, 1, 0.5, min(ccap, 2)])
        t0 = vt.time()
        bal = None
        try:
          bal = max(0.0, cost - min(ccap, b._tokens + b.fill_rate * (t0 - b.timestamp)))
        except Exception:
          pass
        try:
          got = b.drain(cost, blocking=True)
        except Exception as e:
          res.violation('bucket/blocking-raised/%s' % type(e).__name__, 'blocking drain of %r raised %r (clock moving by %.3g s per reading)' % (cost, e, vt.jitter),
                        dict(ops=ops[-10:], cap=cap, rate=rate, jitter=vt.jitter))
          break
        slept = vt.time() - t0
        ops.append(('drain-blocking', cost, slept))
        grants.append((vt.time(), cost, len(regimes) - 1))
        if slept > 0:
          delayed += 1
        res.count('blocking_waits_checked')
        # a blocking acquisition never waits longer than the configured rate needs to produce its whole cost
        # (the deficit is at most the cost plus what earlier blocking acquisitions overdrew)
        if got is not True:
          res.violation('bucket/blocking-result', 'blocking drain returned %r' % (got,), dict(ops=ops[-10:]))
        if bal is not None and not vt.jitter and slept > bal / regimes[-1][0] + EPS * max(1.0, slept) and b._tokens >= -cost - EPS:
          res.violation('bucket/blocking-overslept', 'blocking drain of %r slept %.6g s, deficit %.6g at rate %.6g needs %.6g s' % (
                          cost, slept, bal, regimes[-1][0], bal / regimes[-1][0]), dict(ops=ops[-10:], cap=cap, rate=rate))
      else:
        ncap = r.choice([1, 5, 60, 1000, cap])
        nrate = r.choice([0.5, 1, 50, 1000, rate])
        b.setCapacityAndFillRate(ncap, nrate)
        regimes.append((float(nrate), float(ncap)))
        ops.append(('set', ncap, nrate))
        # hammer right after the change: this is where a wrong balance adjustment shows
        for _ in range(r.choice([0, ncap + 2, 2 * ncap + 3])):
          if b.drain(1):
            grants.append((vt.time(), 1, len(regimes) - 1))
          else:
            refused += 1
            break
    wit = dict(cap=cap, rate=rate, ops=ops[:60], regimes=regimes)
    check_windows(res, grants, regimes, 'bucket', wit)
    res.count('grants', len(grants))
    res.case((cap, rate, repr(ops)), nontrivial=(refused + delayed) >= 1)
    res.sample(dict(cap=cap, rate=rate, ops=[repr(o) for o in ops[:8]], grants=len(grants), refused=refused, delayed=delayed), cap=2)


def run_writer(cfg, res):
  from vlib import boot, sched, memdb
  conf = {'MAX_CREATES_PER_MINUTE': cfg['creates'], 'MAX_UPDATES_PER_SECOND': cfg['updates'], 'CACHE_WRITE_STRATEGY': cfg.get('strategy', 'sorted')}
  if cfg['shutdown'] is not None:
    conf['MAX_UPDATES_PER_SECOND_ON_SHUTDOWN'] = cfg['shutdown']
  if cfg.get('full'):
    conf.update({'MAX_CACHE_SIZE': cfg['full'], 'USE_FLOW_CONTROL': True})
  ns = boot.boot('carbon-cache', conf)
  import carbon.util as util
  import carbon.writer as writer
  import carbon.cache as cc
  from carbon import state
  vt = sched.VTime()
  util.time = vt.time
  sender = dict(budget=0, n=0, cache=None, busy=False)

  def deliver(_ent=None):
    # the sender's side of flow control: a chunk already read is delivered whole, the pause is honoured at chunk boundaries
    if sender['busy'] or sender['budget'] <= 0 or sender['cache'] is None or state.cacheTooFull:
      return
    sender['busy'] = True
    try:
      for _ in range(sender['chunk']):
        sender['n'] += 1
        sender['budget'] -= 1
        sender['cache'].store('load%d' % (sender['n'] % sender['series']), (int(vt.time()) - 3 + sender['n'] % 3, 1.0))
      res.count('overload_chunks_delivered')
    finally:
      sender['busy'] = False

  def vsleep(d):
    vt.sleep(d)
    deliver()
  util.sleep = vsleep
  if cfg.get('full'):
    memdb.ON_CALL[0] = deliver
    from carbon import events
    events.cacheFull.addHandler(lambda: res.count('cache_full_events_under_overload'))
    events.cacheSpaceAvailable.addHandler(lambda: res.count('cache_space_events_under_overload'))
  writer.time = vt
  cc.time = vt
  memdb.CLOCK[0] = vt.time
  r = gen.rng(cfg['seed'], 'C20w', cfg['name'])
  inf = float('inf')
  cr = inf if cfg['creates'] == 'inf' else float(cfg['creates'])
  up = inf if cfg['updates'] == 'inf' else float(cfg['updates'])
  if (writer.CREATE_BUCKET is None) != (cr == inf) or (writer.UPDATE_BUCKET is None) != (up == inf):
    res.inconc('rate limit buckets not configured as requested')
    return
  for case in range(40 if cfg["tier"] == "quick" else 300):
    # fresh buckets as at daemon start, built by carbon's own module-level code (so that the derivation of capacity
    # and fill rate from the settings is the code under test)
    import importlib
    importlib.reload(writer)
    writer.time = vt
    cc._Cache = None
    cache = cc.MetricCache()
    state.database.files.clear()
    memdb.reset()
    regimes_c = [(cr / 60.0, cr)]
    regimes_u = [(up, up)]
    changes = []
    mcount = 0
    nrounds = r.randint(2, 8)
    fam = r.choice([0, 0, 1, 2])
    strict = (case % 4 == 3)
    memdb.STRICT_TS[0] = strict
    if cfg.get('full'):
      state.cacheTooFull = False
      sender.update(budget=r.choice([100, 300, 600]), cache=cache, chunk=r.choice([3, 8, 20]), series=r.choice([5, 40, 200]), n=0)
    # a persistent backend condition for some of the rounds: the disk is full (every create raises) or some files are
    # damaged (every write to them raises); attempts count as operations performed on the backend
    sick = None
    if r.random() < 0.4:
      a = r.randrange(nrounds)
      sick = (a, a + r.randint(1, 3), r.choice(['create', 'create', 'write']))
      res.count('cases_with_persistent_backend_fault')
    for rnd in range(nrounds):
      if sick and rnd == sick[0]:
        memdb.FAULT_OPS[sick[2]] = r.choice(['OSError', 'IOError', 'ValueError', 'EINTR', 'EAGAIN', 'ENOSPC'])
      if sick and rnd == sick[1]:
        memdb.FAULT_OPS.clear()
      for _ in range(r.randint(0, 12)):
        if r.random() < 0.6:
          mcount += 1
          m = 'new%d' % mcount
          if fam == 1:
            m = 'carbon.agents.host-a.new%d' % mcount       # the daemon's own prefix: limited like every other series
          elif fam == 2 and mcount % 2:
            m = 'carbon.relays.r1.new%d;dc=a' % mcount
        else:
          m = 'new%d' % r.randint(1, max(1, mcount))
        cache.store(m, (int(vt.time()) - r.randint(0, 5), 1.0))
      if strict and r.random() < 0.6:
        # clients sending milliseconds: series holding a timestamp the backend's 32-bit field cannot take next to good ones
        for b in range(r.randint(2, 14)):
          mcount += 1
          for k in range(r.randint(2, 5)):
            cache.store('ms%d' % mcount, (int(vt.time()) - k, 1.0))
          cache.store('ms%d' % mcount, (2 ** 32 + int(vt.time()) * 1000 + b, 1.0))
        res.count('rounds_with_unrepresentable_timestamps')
      if r.random() < 0.15:
        # a backlog: series that piled up thousands of points each (stalled disk); one update per series and token all the same
        for b in range(r.randint(1, 4)):
          mcount += 1
          base = int(vt.time()) - 5000
          for k in range(r.choice([999, 1000, 1001, 2500, 3001])):
            cache.store('new%d' % mcount, (base + k, 1.0))
        res.count('backlog_series_rounds')
      if rnd >= 1 and not changes and cfg['shutdown'] is not None and r.random() < 0.4:
        writer.shutdownModifyUpdateSpeed()
        changes.append(len(memdb.CALL_LOG))
        s = float(cfg['shutdown'])
        regimes_c.append((s, s))
        regimes_u.append((s, s))
        ns.settings.__dict__.pop('MIN_TIMESTAMP_LAG', None)
      writer.writeCachedDataPoints()
      vt.offset += r.choice([0, 0.001, 0.5, 1, 1, 60, 3600])
    cgr, ugr = [], []
    for e in memdb.CALL_LOG:
      reg = 1 if (changes and e['seq'] >= changes[0]) else 0
      if e['op'] == 'create':
        cgr.append((e['vt'], 1, reg))
      elif e['op'] == 'write':
        ugr.append((e['vt'], 1, reg))
    wit = dict(cfg=cfg, creates=[g[0] for g in cgr][:40], writes=[g[0] for g in ugr][:40])
    if cr != inf:
      check_windows(res, cgr, regimes_c, 'writer/creates', wit)
    if up != inf:
      check_windows(res, ugr, regimes_u, 'writer/updates', wit)
    res.count('writer_creates', len(cgr))
    res.count('writer_updates', len(ugr))
    dropped = ns.state.instrumentation.stats.get('droppedCreates', 0)
    res.case((cfg['name'], case, len(cgr), len(ugr)), nontrivial=True)
    res.sample(dict(cfg=cfg['name'], creates=len(cgr), updates=len(ugr), droppedCreates=dropped, span=vt.offset), cap=2)


def run_sched(cfg, res):
  """Two real threads: the writer loop under MAX_UPDATES_PER_SECOND and the reactor thread delivering the stop
  (shutdownModifyUpdateSpeed lowers the limits) at every line of the bucket code."""
  from vlib import boot, cachesim, sched as S
  ns = boot.boot('carbon-cache', {'MAX_UPDATES_PER_SECOND': cfg['updates'], 'MAX_UPDATES_PER_SECOND_ON_SHUTDOWN': cfg['shutdown'],
                                  'CACHE_WRITE_STRATEGY': cfg['strategy'], 'MAX_CACHE_SIZE': 'inf'})
  world = cachesim.World(ns, trace_files=('writer.py', 'util.py'))
  r = gen.rng(cfg['seed'], 'C20s', cfg['name'])
  up, shut = float(cfg['updates']), float(cfg['shutdown'])
  for w in range(1 if cfg['tier'] == 'quick' else 4):
    n1 = int(up) + r.randint(2, 4)         # enough distinct metrics to run the bucket dry
    ops = [('store', 'q%d' % i, 999900) for i in range(n1)]
    ops.append(('sleep', r.choice([20, 45, 90])))         # quiet period: the refill timestamp goes stale
    n2 = int(up) + r.randint(2, 5)
    ops += [('store', 'z%d' % i, 999950) for i in range(n2)]
    ops.append(('sleep', r.choice([0.0, 0.001, 0.3])))
    ops.append(('stop',))
    seen = set()

    def pre(h):
      # the regime changes when setCapacityAndFillRate() has run, not when the stop was initiated
      import carbon.writer as _w
      b = _w.UPDATE_BUCKET
      real = b.setCapacityAndFillRate
      h.limit_change = None

      h.limit_change_call = None

      def wrapped(cap, rate):
        h.limit_change_call = world.tick()
        r_ = real(cap, rate)
        h.limit_change = world.tick()
        return r_
      b.setCapacityAndFillRate = wrapped

    def one(policy, desc):
      h = world.run(ops, ('loop',), policy=policy, timeout=60, drain_rest=False, pre=pre)
      res.count('sched_schedules_executed')
      if h.sched_error is not None:
        res.inconc('%s: %s' % (type(h.sched_error).__name__, h.sched_error))
        return h
      writes = [e for e in h.backend if e['op'] == 'write']
      if h.limit_change is None:
        res.inconc('limit change not observed')
        return h
      # while setCapacityAndFillRate() is running the bucket is part old, part new: updates performed in that stretch are
      # held against the more generous of the two regimes, those before the call against the old, those after the return
      # against the new one
      after = [(e['vt'], 1, 0) for e in writes if e['tick'] > h.limit_change]
      before = [(e['vt'], 1, 0) for e in writes if e['tick'] <= (h.limit_change_call if shut > up else h.limit_change)]
      during = [(e['vt'], 1, 0) for e in writes if h.limit_change_call < e['tick'] <= h.limit_change] if shut > up else []
      if during:
        check_windows(res, during, [(max(up, shut), max(up, shut) + 0.5)], 'sched/updates-during-change', dict(ops=ops, deviations=h.deviations))
      res.count('writes_after_limit_change', len(after))
      wit = dict(ops=ops, deviations=h.deviations, stop_vt=h.stop_vt, writes_after=[a[0] for a in after][:30])
      # one update may have been granted under the old limits and performed just after the change: capacity + 1 below
      check_windows(res, before, [(up, up)], 'sched/updates-before-change', wit)
      check_windows(res, after, [(shut, shut + 0.5)], 'sched/updates-after-change', wit)
      # a blocking acquisition waits and then grants: nothing in the bucket code may fail, whenever the limits change
      for name, e in h.thread_exc:
        res.violation('sched/thread-died/%s' % type(e).__name__, 'thread %s died with %r [%s dev=%r]' % (name, e, desc, h.deviations), wit)
      for err in h.log_errors:
        res.violation('sched/writer-error/%s' % err[0], 'the writer loop logged %r with no backend fault injected [%s dev=%r]' % (err[:2], desc, h.deviations), wit)
      key = (hash(repr(ops)), h.trace_hash)
      if key not in seen:
        seen.add(key)
        res.case(hash(key), nontrivial=len(after) >= 2)
      else:
        res.evaluations += 1
      return h

    h0 = one(S.DeviationPolicy({}), 'baseline')
    n0 = h0.decisions
    budget2 = 300 if cfg['tier'] == 'quick' else 4000
    stride1 = max(1, n0 // 400) if cfg['tier'] == 'quick' else 1
    for d in range(0, n0 + 2, stride1):
      hi = one(S.DeviationPolicy({d: 1}), 'preempt@%d' % d)
      m = hi.decisions + 2 - (d + 1)
      take = max(1, budget2 // max(1, (n0 + 2) // stride1))
      if m > 0:
        for j in sorted(set(r.randrange(d + 1, hi.decisions + 2) for _ in range(min(take, m)))):
          one(S.DeviationPolicy({d: 1, j: 1}), 'preempt@%d,%d' % (d, j))

    def hot(frame):
      return frame.f_code.co_name in ('peek', 'drain', 'setCapacityAndFillRate', 'shutdownModifyUpdateSpeed')
    for _ in range(250 if cfg['tier'] == 'quick' else 1500):
      one(S.TargetedPolicy(gen.rng(r.random(), 'tp'), hot, p_hot=r.choice([0.3, 0.6]), p_cold=0.01), 'targeted')
    res.sample(dict(cfg=cfg['name'], workload=[repr(o) for o in ops[:6]] + ['...'], stores=n1 + n2), cap=2)


def run_config(cfg, res):
  if cfg['mode'] == 'bucket':
    run_bucket(cfg, res)
  elif cfg['mode'] == 'sched':
    run_sched(cfg, res)
  else:
    run_writer(cfg, res)


def finalize(merged, tier):
  c = merged['counters']
  out = []
  for k in ('grant_pairs_checked', 'blocking_waits_checked', 'writer_creates', 'writer_updates', 'sched_schedules_executed', 'writes_after_limit_change'):
    if not c.get(k):
      out.append('counter %s is zero' % k)
  return out


def classify(v):
  return None
