"""C08 — aggregates are the rule function over exactly the values of their interval."""
import itertools
import os
import re

from vlib import gen

PROPERTY = 'C08'
LEVEL = 'exploration'
RULE = ('case = (aggregation-rules file from the documented pattern language with all 12 methods, MAX_AGGREGATION_INTERVALS, '
        'WRITE_BACK_FREQUENCY, name cache mode, FORWARD_ALL, stream of arrive / advance events on a virtual clock incl. late, '
        'duplicate, far-past and future timestamps); executed through the real pipeline (rewrite:pre, aggregate, rewrite:post, '
        'relay) with LoopingCalls on the virtual clock; a shadow model keyed by (aggregate, interval) keeps the values received '
        '(own pattern matcher decides which aggregate a name feeds); every emission must be aligned, have new input, and equal '
        'f(all values) - or f(of a suffix containing all values since the last emission) once the documented expiry rule may '
        'have dropped the buffer; buffered intervals <= MAX+2 after a flush; idle series released; pass-through exactly once under '
        'FORWARD_ALL and never otherwise; exhaustive short event sequences + seeded random streams; non-trivial = sequence with '
        '>=1 emission and >=1 late or duplicate datapoint; distinct = (rules, config, sequence)')
RULE_MORE = (' The retention model is applied at the observed flushes (idle expiry after MAX intervals, then MAX+2 trimming), expected values are exact; further families: rules edited mid-stream, intervals of 1001-4001 values under every method, name caches whose TTL clock moves with every look at it.')
RULE = RULE + RULE_MORE
EXHAUSTIVE = {'quick': True, 'thorough': True}
EXHAUSTIVE_OVER = 'all event sequences up to length L (quick 5, thorough 6) over a 9-event alphabet for the fixed rule set'
ASSUMPTIONS = ['two rules never claim the same aggregate name (output templates get distinct literal heads)',
               'expiry is over-approximated in favour of the code: a buffer may be forgotten once more than (MAX-1)*frequency '
               'virtual seconds passed since its last emission, or once MAX+2 newer intervals of the series received data',
               'values are multiples of 0.25 so sums are exact; percentiles compared to 1e-9 relative']
TIMEOUT = {'quick': 900, 'thorough': 3000}

BASE = 1000000     # virtual epoch (multiple of every frequency used)


def configs(tier, seed):
  cfgs = []
  i = 0
  for mx in (1, 2, 5):
    for wbf in (None, 1, 7):
      for cache in (('off', 0, 0), ('lru', 50, 0), ('ttl', 50, 300), ('ttljit', 50, 1)):
        for fwd in (True, False):
          i += 1
          if tier == 'quick' and i % 3 != 0:
            continue
          if tier == 'thorough' and i % 2 != 0:
            continue
          cfgs.append(dict(name='max%d/wbf%s/%s/fwd%d' % (mx, wbf, cache[0], fwd), max=mx, wbf=wbf, cache=cache, fwd=fwd))
  return cfgs


FIXED_RULES = "sumA.<env>.total (10) = sum app.<env>.*.count\navgB.all (10) = avg app.*.web*.lat\nloop.<x>.sum (10) = sum loop.<x>.*\nallloops.total (10) = sum loop.*.*\nroll2.total (10) = max self2.*.*\nself2.<x>.sum (10) = sum self2.<x>.*\n"


def gen_rules(r):
  from checks.c16_rules import gen_agg_rules
  txt = gen_agg_rules(r)
  # frequencies restricted to 10/60 by the generator; keep as is
  return txt


class Shadow(object):
  def __init__(self, rules, mx, fwd):
    self.rules = rules
    self.mx = mx
    self.fwd = fwd
    self.buf = {}        # (agg, interval) -> dict(all=[], since=[], last_emit=None, rule=idx)
    self.series_intervals = {}   # agg -> set of intervals that ever received data
    self.last_input = {}         # agg -> virtual time of last input


def run_config(cfg, res):
  from vlib import boot, fakereactor
  from vlib.refs import aggrules
  conf = {'MAX_AGGREGATION_INTERVALS': cfg['max'], 'FORWARD_ALL': cfg['fwd'], 'DESTINATIONS': '127.0.0.1:2004:a',
          'CACHE_METRIC_NAMES_MAX': cfg['cache'][1], 'CACHE_METRIC_NAMES_TTL': cfg['cache'][2], 'LOG_AGGREGATOR_MISSES': False}
  if cfg['wbf'] is not None:
    conf['WRITE_BACK_FREQUENCY'] = cfg['wbf']
  ns = boot.boot('carbon-aggregator', conf, files={'aggregation-rules.conf': FIXED_RULES})
  settings = ns.settings
  import carbon.client as client
  import carbon.aggregator.buffers as buffers
  from carbon.aggregator.rules import RuleManager
  from carbon import service, state, events
  from twisted.application.service import MultiService
  from twisted.internet.task import LoopingCall as RealLoopingCall
  world = dict(fake=fakereactor.FakeReactor())
  client.reactor = world['fake']

  class VClock(object):
    @staticmethod
    def time():
      return BASE + world['fake'].seconds()
  buffers.time = VClock

  def lc_factory(f, *a, **kw):
    lc = RealLoopingCall(f, *a, **kw)
    lc.clock = world['fake']
    return lc
  buffers.LoopingCall = lc_factory
  if cfg['cache'][0] == 'ttljit':
    # the name caches' TTL clock: virtual time plus a little real processing time with every look at the clock, so that
    # entries expire at arbitrary moments - also between two accesses of one lookup
    import cachetools
    import carbon.aggregator.rules as rules_mod
    ticks = [0]

    def jitter_clock():
      ticks[0] += 1
      return BASE + world['fake'].seconds() + ticks[0] * 0.05
    rules_mod.TTLCache = lambda size, ttl: cachetools.TTLCache(size, ttl, timer=jitter_clock)
  flushes = []
  real_compute = buffers.MetricBuffer.compute_value

  def compute_wrapper(self):
    flushes.append((self.metric_path, VClock.time()))
    try:
      return real_compute(self)
    finally:
      flushes.append((self.metric_path, None))      # end marker: what was generated up to here belongs to this flush
      gen_marks.append(len(generated))
  buffers.MetricBuffer.compute_value = compute_wrapper

  root = MultiService()
  settings.RELAY_METHOD = 'consistent-hashing'      # as createAggregatorService does
  service.setupPipeline(['rewrite:pre', 'aggregate', 'rewrite:post', 'relay'], root, settings)   # as createAggregatorService
  out = []          # everything that leaves the pipeline towards the destinations
  generated = []    # what the aggregator generated
  gen_marks = []    # len(generated) at the end of every flush

  class Sink(object):
    def sendDatapoint(self, metric, datapoint):
      out.append((metric, datapoint))
  state.client_manager = Sink()
  events.metricGenerated.handlers.insert(0, lambda m, d: generated.append((m, d)))
  rules_path = settings['aggregation-rules']
  import time as _t
  mt = [int(_t.time()) + 1000]      # later than the boot-time read of the rules file
  r = gen.rng(cfg['seed'], 'C08', cfg['name'])
  mx = cfg['max']

  def load_rules(text):
    with open(rules_path, 'w') as f:
      f.write(text)
    mt[0] += 10
    os.utime(rules_path, (mt[0], mt[0]))
    RuleManager.read_rules()
    return aggrules.parse_rules(text)

  def run_sequence(rules, evs, label):
    """evs: ('arrive', name, ts_offset_from_now, value) | ('adv', dt).  Returns list of violations."""
    buffers.BufferManager.clear()
    world['fake'] = fakereactor.FakeReactor()
    fake = world['fake']
    del out[:], generated[:], flushes[:], gen_marks[:]
    viol = []
    sh = {}            # (agg, interval) -> record
    series_freq = {}   # agg -> frequency of the rule feeding it
    ever = {}          # agg -> set(intervals with data)
    nemit = 0
    late = 0

    def now():
      return BASE + fake.seconds()

    def check_emissions():
      """Walks the flushes observed since the last call in order.  The retention model is the documented one, applied at
      the moments carbon applies it (the flushes): an interval that has been emitted and then stayed without input for more
      than MAX_AGGREGATION_INTERVALS intervals is forgotten; after that, if a series still holds more than MAX + 2
      intervals the oldest are forgotten.  Nothing else may make buffered values disappear."""
      nonlocal nemit
      gi = 0
      fl = [f for f in flushes if f[1] is not None]
      for k, (m, t) in enumerate(fl):
        hi = gen_marks[k] if k < len(gen_marks) else len(generated)
        emitted_here = generated[gi:hi]
        gi = hi
        recs = dict((key[1], rec) for key, rec in sh.items() if key[0] == m)
        freq = series_freq.get(m)          # the frequency of the rule that feeds this series now
        emitted_intervals = set()
        for (gm, (interval, value)) in emitted_here:
          nemit += 1
          res.count('emissions_checked')
          if gm != m:
            viol.append(('emitted-by-other-series', 'flush of %r generated a datapoint for %r' % (m, gm)))
            continue
          rec = recs.get(interval)
          if rec is None:
            viol.append(('emitted-without-input', 'aggregate %r emitted for interval %r which never received data (known intervals %r)' % (m, interval, sorted(recs))))
            continue
          emitted_intervals.add(interval)
          if interval % rec['freq'] != 0:
            viol.append(('unaligned-interval', 'aggregate %r emitted interval %r, not a multiple of the rule frequency %d' % (m, interval, rec['freq'])))
          if not rec['since']:
            viol.append(('re-emitted-without-new-data', 'aggregate %r interval %r emitted again without new input (all=%r)' % (m, interval, rec['all'])))
            continue
          allv = rec['all']
          exp = aggrules.apply(rec['method'], allv)
          ok = exp is not None and (exp == value or (isinstance(exp, float) and abs(exp - value) <= 1e-9 * max(1.0, abs(exp))))
          if not ok and rec.get('reloaded'):
            # a rules reload may or may not have kept what was buffered before it: any suffix that contains the new values
            ns_ = len(rec['since'])
            for k2 in range(0, len(allv) - ns_ + 1):
              e2 = aggrules.apply(rec['method'], allv[k2:])
              if e2 is not None and (e2 == value or (isinstance(e2, float) and abs(e2 - value) <= 1e-9 * max(1.0, abs(e2)))):
                ok = True
                break
          if not ok:
            kind = 'within-horizon' if not rec['was_forgotten'] else 'after-expiry'
            viol.append(('wrong-value/%s' % kind, 'aggregate %r interval %r emitted %r; %s over the values buffered for it %r is %r (values since last emission %r)' % (
              m, interval, value, rec['method'], allv if len(allv) <= 16 else allv[:12] + ['... %d values' % len(allv)], exp,
              rec['since'] if len(rec['since']) <= 16 else rec['since'][:8] + ['...'])))
          rec['since'] = []
          rec['last_emit'] = t
        if freq is None:
          continue
        now_i = int(t)
        cur = now_i - (now_i % freq)
        thr = cur - mx * freq
        # an interval with new data must have been emitted by this flush
        for interval, rec in recs.items():
          if rec['alive'] and rec['since'] and interval not in emitted_intervals and not rec.get('reloaded'):
            viol.append(('not-emitted-at-flush', 'aggregate %r interval %r holds new values %r but the flush at %r did not emit it' % (m, interval, rec['since'], t)))
          if interval in emitted_intervals:
            rec['inactive'] = cur
          elif rec['alive'] and rec['inactive'] is not None and rec['inactive'] < thr:
            rec['alive'] = False                      # forgotten after MAX idle intervals
        alive = sorted(i for i, rec in recs.items() if rec['alive'])
        if len(alive) > mx + 2:
          for interval in alive[:-(mx + 2)]:
            recs[interval]['alive'] = False          # more than MAX + 2 intervals held: the oldest go
        for interval, rec in recs.items():
          if not rec['alive'] and (rec['all'] or not rec['was_forgotten']):
            rec['all'] = []
            rec['since'] = []
            rec['inactive'] = None
            rec['was_forgotten'] = True
      flushed = set(f[0] for f in fl)
      del generated[:], flushes[:], gen_marks[:]
      return flushed

    for ev in evs:
      if ev[0] == 'reload':
        # the rules file is edited while series are buffered (RuleManager's LoopingCall picks the change up): whatever was
        # emitted up to here was computed under the old rules; what is buffered may be dropped or kept, but from now on
        # every series is aggregated with the new rule's method over intervals aligned to the new rule's frequency
        rules = load_rules(ev[1])
        check_emissions()
        for rec in sh.values():
          # carbon drops every buffer when the rules change (BufferManager.clear()): nothing buffered survives
          rec['alive'] = False
          rec['all'] = []
          rec['since'] = []
          rec['inactive'] = None
          rec['was_forgotten'] = True
        res.count('rule_reloads_mid_stream')
      elif ev[0] == 'arrive':
        _, name, off, value = ev
        ts = int(now()) + off
        if isinstance(off, float):
          ts = now() + off
        n_out0 = len(out)
        events.metricReceived(name, (ts, value))
        res.count('datapoints_sent')
        feeds = set()
        for ridx, rule in enumerate(rules):
          agg = aggrules.aggregate_name(rule, name)
          if agg is None:
            continue
          feeds.add(agg)
          freq = rule['frequency']
          interval = ts - (ts % freq)
          rec = sh.setdefault((agg, interval), dict(all=[], since=[], last_emit=None, freq=freq, method=rule['method'],
                                                    alive=True, inactive=None, was_forgotten=False))
          rec['alive'] = True
          rec['inactive'] = None
          series_freq[agg] = freq
          if rec['method'] != rule['method'] or rec['freq'] != freq:      # the rule changed under this series
            rec['method'], rec['freq'] = rule['method'], freq
          rec['all'].append(value)
          rec['since'].append(value)
          ever.setdefault(agg, set()).add(interval)
          if rec['last_emit'] is not None or off < 0:
            late += 1
        # pass-through
        fw = [o for o in out[n_out0:]]
        want = 1 if (cfg['fwd'] and name not in feeds) else 0
        same = [o for o in fw if o == (name, (ts, value))]
        if len(fw) != want or len(same) != want:
          viol.append(('forwarding/%s' % ('missing' if len(same) < want else 'extra-or-altered'),
                       'datapoint %r forwarded as %r; FORWARD_ALL=%s, feeds %r' % ((name, (ts, value)), fw, cfg['fwd'], sorted(feeds))))
        check_emissions()
      else:
        n_out0 = len(out)
        fake.advance(ev[1])
        flushed = check_emissions()
        # after a flush no series may hold more than MAX + 2 intervals
        for m in flushed:
          b = buffers.BufferManager.buffers.get(m)
          if b is not None and len(b.interval_buffers) > mx + 2:
            viol.append(('too-many-intervals', 'series %r holds %d intervals after a flush (MAX_AGGREGATION_INTERVALS=%d)' % (m, len(b.interval_buffers), mx)))
          res.count('flushes_observed')
      if viol:
        break
    if not viol:
      # idle series are released: let everything expire
      maxfreq = max([ru['frequency'] for ru in rules] or [10])
      for _ in range(mx + 4):
        fake.advance(maxfreq)
        check_emissions()
      for _ in range(3):
        fake.advance(maxfreq * (mx + 3))
        check_emissions()
      if len(buffers.BufferManager):
        viol.append(('series-not-released', 'series still registered after going idle: %r' % sorted(buffers.BufferManager.buffers)[:4]))
      pend = [c for c in fake.getDelayedCalls()]
      if pend and not len(buffers.BufferManager):
        viol.append(('timer-leak', '%d timers still pending after all series were released' % len(pend)))
      # every value fed must have been emitted at least once by now
      for (m, interval), rec in sh.items():
        if rec['since'] and rec['alive'] and not rec.get('reloaded'):
          viol.append(('never-emitted', 'aggregate %r interval %r received %r but was never emitted' % (m, interval, rec['all'])))
    return viol, nemit, late

  def report(viol, rules_text, evs, label):
    for sig, msg in viol[:2]:
      res.violation(sig, '%s [%s] rules=%r events=%r' % (msg, cfg['name'], rules_text, evs[:40]), dict(rules=rules_text, events=evs, cfg=cfg),
                    case=dict(rules=rules_text, events=evs))

  # ---- exhaustive short sequences on the fixed rule set
  rules = load_rules(FIXED_RULES)
  A, B = 'app.prod.web1.count', 'app.prod.web2.count'
  alphabet = [('arrive', A, 0, 1.0), ('arrive', B, 0, 2.5), ('arrive', A, -10, 4.0), ('arrive', A, -25, 8.25), ('adv', 5), ('adv', 10), ('adv', 35),
              ('arrive', 'loop.a.sum', 0, 3.0),     # a datapoint named like one of the two aggregates it feeds
              ('arrive', 'self2.b.sum', 0, 1.5)]
  L = 5 if cfg['tier'] == 'quick' else 6
  for length in range(1, L + 1):
    for evs in itertools.product(alphabet, repeat=length):
      if not any(e[0] == 'arrive' for e in evs):
        continue
      viol, nemit, late = run_sequence(rules, list(evs), 'exh')
      res.count('sequences_executed')
      res.case(repr(evs), nontrivial=(nemit >= 1 and late >= 1))
      report(viol, FIXED_RULES, list(evs), 'exh')
      if res.violations:
        break
  res.sample(dict(cfg=cfg['name'], rules=FIXED_RULES, alphabet=[repr(a) for a in alphabet], depth=L), cap=1)

  # ---- replay / backfill family: the same old intervals are written again and again across flush ticks, with more
  # intervals buffered than MAX_AGGREGATION_INTERVALS + 2 (exercises trimming, expiry and re-creation of interval buffers)
  rules = load_rules(FIXED_RULES)
  for case in range(120 if cfg['tier'] == 'quick' else 600):
    nint = cfg['max'] + r.randint(1, 5)
    offs = [-10 * k for k in range(nint)]
    if r.random() < 0.5:
      r.shuffle(offs)
    else:
      offs.sort(reverse=True)          # newest first, the oldest interval is written last
    series = r.choice([A, B])
    evs = [('arrive', series, o, r.randrange(1, 400) * 0.25) for o in offs]
    pet = r.choice(offs[-2:])          # the interval the replay keeps hitting
    for rnd in range(r.randint(2, 4)):
      evs.append(('adv', r.choice([1, 5, 10, 10, 11, 20])))
      for _ in range(r.randint(1, 4)):
        c = r.random()
        o = pet if c < 0.6 else (0 if c < 0.8 else r.choice(offs))
        evs.append(('arrive', series if r.random() < 0.85 else B, o, r.randrange(1, 400) * 0.25))
    viol, nemit, late = run_sequence(rules, evs, 'replay')
    res.count('sequences_executed')
    res.count('replay_sequences')
    res.case(repr(evs), nontrivial=(nemit >= 1 and late >= 1))
    report(viol, FIXED_RULES, evs, 'replay')

  # ---- big intervals: thousands of values in one interval, every aggregation method over the same values (percentile ranks
  # that are whole numbers and ranks that are not)
  from vlib.refs import aggrules as _ar
  bulk_text = ''.join('bulk.%s (10) = %s big.*.v\n' % (m, m) for m in _ar.METHODS)
  rules = load_rules(bulk_text)
  for nvals in ((1001, 1002) if cfg['tier'] == 'quick' else (1000, 1001, 1002, 2001, 2500, 4001)):
    evs = [('arrive', 'big.h%d.v' % (k % 7), 0, r.randrange(-4000, 4000) * 0.25) for k in range(nvals)] + [('adv', 10), ('adv', 10)]
    viol, nemit, late = run_sequence(rules, evs, 'bulk')
    res.count('sequences_executed')
    res.count('bulk_interval_sequences')
    res.case(('bulk', nvals), nontrivial=nemit >= 1)
    report(viol, bulk_text, evs[:6] + [('... %d values' % nvals,)], 'bulk')

  # ---- random rule sets and streams
  from checks.c16_rules import names_for
  for case in range(25 if cfg['tier'] == 'quick' else 120):
    text = gen_rules(r)
    try:
      rules = load_rules(text)
    except Exception as e:
      res.violation('rules-rejected', 'generated rules rejected: %r %r' % (e, text))
      continue
    names = names_for(text, r, 6)
    evs = []
    for _ in range(r.randint(10, 80)):
      if r.random() < 0.65:
        nm = r.choice(names)
        c = r.random()
        if c < 0.5:
          off = 0
        elif c < 0.75:
          off = -r.choice([1, 9, 10, 20, 60, 61, 120])
        elif c < 0.85:
          off = -r.choice([10, 60]) * (cfg['max'] + r.randint(1, 4))        # beyond the horizon
        elif c < 0.92:
          off = r.choice([10, 60, 125, 125, 3600, 86400 * 400])             # future: a little, and a sender whose clock is far ahead
        else:
          off = -r.choice([0.5, 10.25])                                     # fractional
        evs.append(('arrive', nm, off, r.randrange(-4000, 4000) * 0.25))
      else:
        evs.append(('adv', r.choice([1, 5, 7, 10, 10, 30, 60, 61, 200])))
    if r.random() < 0.4:
      # edit the rules file in the middle of the stream: same outputs and patterns, other methods and / or frequencies
      def edited(t):
        lines = []
        for ln in t.splitlines():
          m_ = re.match(r'^(\S+) \((\d+)\) = (\S+) (.*)$', ln)
          if m_ and r.random() < 0.7:
            freq_ = int(m_.group(2)) if r.random() < 0.5 else r.choice([10, 60])
            meth_ = r.choice(aggrules.METHODS) if r.random() < 0.8 else m_.group(3)
            ln = '%s (%d) = %s %s' % (m_.group(1), freq_, meth_, m_.group(4))
          lines.append(ln)
        return '\n'.join(lines) + '\n'
      for _ in range(r.randint(1, 2)):
        evs.insert(r.randrange(len(evs) // 3, len(evs)), ('reload', edited(text)))
    viol, nemit, late = run_sequence(rules, evs, 'rand')
    res.count('sequences_executed')
    res.case(repr((text, evs)), nontrivial=(nemit >= 1 and late >= 1))
    report(viol, text, evs, 'rand')
    if case < 2:
      res.sample(dict(cfg=cfg['name'], rules=text, events=[repr(e) for e in evs[:12]], emissions=nemit), cap=3)


def finalize(merged, tier):
  c = merged['counters']
  out = []
  for k in ('sequences_executed', 'emissions_checked', 'flushes_observed', 'datapoints_sent'):
    if not c.get(k):
      out.append('monitor counter %s is zero' % k)
  return out


def classify(v):
  return None
