"""C17 — every write strategy drains consistently, completely and without starvation."""
from vlib import gen

PROPERTY = 'C17'
LEVEL = 'exploration'
RULE = ('case = (strategy, MIN_TIMESTAMP_LAG, bounded/unbounded cache, store/drain history over <=5 metrics x <=4 timestamps, '
        'thread schedule with the choose->pop window targeted); real threads under the baton scheduler; oracle over the '
        'recorded drain sequence: no exception from store()/drain_metric(); no (metric, []) while another metric holds '
        'datapoints (snapshot at the instant the drain takes the cache lock); after input stops repeated draining empties the '
        'cache; sorted/timesorted/naive: some partition of the drain sequence into passes exists in which no metric repeats '
        'and every pass but the last covers the metrics present at its start; max/bucketmax: drained metric holds the maximum '
        'count at choose time; timesorted with lag: drained metric\'s oldest datapoint is older than the lag; non-trivial = '
        'execution with >=2 metrics drained and >=1 thread switch; distinct = distinct interleavings per history')
RULE_MORE = (" Also: the shutdown hook zeroing the lag, series named '', queues of 1000+ datapoints, timestamps outside any calendar, cache queries for absent series, and the C02 conservation oracle.")
RULE_MORE = RULE_MORE + ' Round 11: configurations under flow control (the cache-full flag is raised and cleared while the strategies work, with and without a lag).'
RULE_MORE = RULE_MORE + " Round 12: the daemon's start-up scenario (C02) per strategy."
RULE = RULE + RULE_MORE
EXHAUSTIVE = {'quick': False, 'thorough': False}
EXHAUSTIVE_OVER = 'all schedules with <=1 preemption of every generated history (<=2 for short histories in thorough)'
ASSUMPTIONS = ['MIN_TIMESTAMP_LAG is honoured by the timesorted strategy only (documented in carbon.conf.example); the lag '
               'clause is checked for timesorted',
               'pass boundaries are not observable: any valid partition is accepted (sound against when the snapshot is refreshed)']
TIMEOUT = {'quick': 900, 'thorough': 3000}

STRATEGIES = ['sorted', 'max', 'naive', 'timesorted', 'bucketmax', 'random']


def configs(tier, seed):
  cfgs = []
  for st in STRATEGIES:
    for lag in ((0, 30) if st == 'timesorted' or tier == 'thorough' else (0,)):
      for mx in (('inf', 4) if tier == 'quick' else ('inf', 2, 6)):
        cfgs.append(dict(name='%s/lag%d/max%s' % (st, lag, mx), strategy=st, lag=lag, max=mx))
    # a bounded cache under flow control: the cache-full flag is raised and cleared while the strategy works (with a lag:
    # a full cache is no reason to hand out what is younger than the lag)
    for lag in ((0, 30) if st == 'timesorted' else (0,)):
      for mx in ((3,) if tier == 'quick' else (2, 3, 6)):
        cfgs.append(dict(name='%s/lag%d/max%s/fc1' % (st, lag, mx), strategy=st, lag=lag, max=mx, fc=True))
    cfgs.append(dict(name='%s/marathon' % st, strategy=st, lag=0, max='inf', marathon=True))
    # daemon start-up (the scenario of C02): whatever is received while the writer thread takes its first look at the cache
    # must come out of the strategy's drains like everything else
    cfgs.append(dict(name='%s/startup' % st, strategy=st, lag=0, max='inf', startup=True))
  return cfgs


def gen_history(r, lag, short, big=False):
  nm = r.randint(2, 5)
  metrics = ['m%d' % i for i in range(nm)]
  if r.random() < 0.15:
    metrics[r.randrange(nm)] = ''      # the pickle listener accepts a series whose name is the empty string
  n = r.randint(4, 8) if short else r.randint(8, 22)
  ops = []
  for _ in range(n):
    c = r.random()
    if lag and c < 0.15:
      ops.append(('sleep', r.choice([1, 10, 31, 40])))
    elif c > 0.93:
      # graphite-web asks the cache for a series (cached, drained meanwhile, or never seen)
      ops.append(('query', r.choice(metrics + ['never.stored'])))
    else:
      # timestamps relative to the virtual epoch: some old (eligible), some young
      # (without a lag, a datapoint stamped now or in the future - a sender whose clock runs ahead - must drain like any other)
      base = r.choice([1000000 - 100, 1000000 - 100, 1000000 - 100, 1000000, 1000000 + 50]) if not lag else r.choice([1000000 - 100, 1000000 - 100, 1000000 + 5])
      ops.append(('store', r.choice(metrics), base + r.randrange(4) + (0.5 if r.random() < 0.1 else 0)))
      if r.random() < 0.06:
        # clients that send milliseconds, or garbage: timestamps far outside any calendar (far future or far past)
        ops[-1] = ('store', ops[-1][1], r.choice([1727864000000, 253402300800, 10 ** 15, 0, 1]) + r.randrange(2))
  ndr = r.randint(2, 4) if short else r.randint(nm, 2 * nm + 2)
  if big:
    # one series with a very long queue (a stalled disk): thousands of distinct timestamps
    m = r.choice(metrics)
    base = 1000000 - 90000
    ops = [('store', m, base + k) for k in range(r.choice([1000, 1001, 1500]))] + ops
    ndr += 2
  return ops, ndr


def pass_partition_ok(seq, snaps):
  """seq: drained metric names; snaps: set of metrics that had to be covered if a pass starts at that drain."""
  n = len(seq)
  ok = [False] * (n + 1)
  ok[n] = True
  for a in range(n - 1, -1, -1):
    seen = set()
    for b in range(a, n):
      if seq[b] in seen:
        break
      seen.add(seq[b])
      if b == n - 1:
        ok[a] = True
        break
      if ok[b + 1] and snaps[a] <= seen:
        ok[a] = True
        break
  return ok[0]


def oracle(h, cfg):
  out = []
  st = cfg['strategy']
  lag = cfg['lag']
  for name, e in h.exceptions:
    out.append(('raised/%s/%s' % (name, type(e).__name__), '%s raised %r' % (name, e)))
  for name, e in h.thread_exc:
    out.append(('thread-died/%s' % type(e).__name__, 'thread %s died with %r' % (name, e)))
  if h.rest_exc is not None:
    out.append(('raised/drain_metric-after-input/%s' % type(h.rest_exc).__name__, 'draining after input stopped raised %r' % (h.rest_exc,)))
  drains = [d for d in h.drains if d.get('metric') is not None]
  for d in drains:
    snap = d.get('snap') or {}
    if not d['points']:
      others = [m for m, (c, _) in snap.items() if c > 0 and m != d['metric']]
      if others:
        out.append(('empty-drain', 'drain returned (%r, []) while %r held datapoints' % (d['metric'], others)))
    if st in ('max', 'bucketmax') and snap:
      mxc = max(c for c, _ in snap.values())
      got = snap.get(d['metric'], (0, None))[0]
      if got != mxc:
        out.append(('not-maximum', '%s drained %r holding %d datapoints while the maximum was %d (%r)' % (st, d['metric'], got, mxc, snap)))
    if st == 'timesorted' and lag and d['points']:
      oldest = min(p[0] for p in d['points'])
      if not (d['vt_ret'] - oldest > lag):
        out.append(('lag-violated', 'timesorted drained %r whose oldest datapoint is %.1fs old (lag %d)' % (d['metric'], d['vt_ret'] - oldest, lag)))
  if st in ('sorted', 'timesorted', 'naive') and drains:
    seq = [d['metric'] for d in drains]
    snaps = []
    for d in drains:
      snap = d.get('snap') or {}
      need = set()
      for m, (c, oldest) in snap.items():
        if c <= 0:
          continue
        if st == 'timesorted' and lag and not (d['snap_now'] - oldest > lag):
          continue
        need.add(m)
      snaps.append(need)
    if not pass_partition_ok(seq, snaps):
      out.append(('starvation', '%s: drain sequence %r cannot be split into passes that each cover the metrics present at their start %r' % (
        st, seq, [sorted(s) for s in snaps])))
  from vlib import cachesim as _cs
  out.extend(_cs.check_conservation(h))        # "hands out every cached datapoint": none lost, none twice
  left = getattr(h, 'left_after_rest', {})
  if left:
    out.append(('not-drained', 'with input stopped repeated draining ended with datapoints left: %r' % left))
  return out


def run_marathon(cfg, res, ns):
  """One cache object living through tens of thousands of stores and drains (single thread, no scheduler): whatever a
  strategy keeps across passes must stay consistent for the life of the daemon."""
  import carbon.cache as cc
  r = gen.rng(cfg['seed'], 'C17m', cfg['name'])
  st = cfg['strategy']
  cc._Cache = None
  cache = cc.MetricCache()
  model = {}
  nm = 7
  ndrains = 0
  total = 12000 if cfg['tier'] == 'quick' else 60000
  step = 0
  while ndrains < total:
    step += 1
    for _ in range(r.randint(0, 3)):
      m = 'm%d' % r.randrange(nm)
      ts = 1000 + r.randrange(6)
      try:
        cache.store(m, (ts, float(step)))
      except Exception as e:
        res.violation('%s/marathon/store-raised/%s' % (st, type(e).__name__), 'store raised %r after %d drains on one cache object' % (e, ndrains))
        return
      model.setdefault(m, {})[ts] = float(step)
    try:
      metric, pts = cache.drain_metric()
    except Exception as e:
      res.violation('%s/marathon/drain-raised/%s' % (st, type(e).__name__), 'drain_metric raised %r at drain %d on one cache object' % (e, ndrains + 1))
      return
    ndrains += 1
    if metric is None:
      if any(model.values()):
        res.violation('%s/marathon/empty-drain' % st, 'drain %d returned nothing while %d series hold datapoints' % (ndrains, sum(1 for v in model.values() if v)))
        return
      continue
    want = model.get(metric) or {}
    if sorted(want.items()) != list(pts):
      res.violation('%s/marathon/wrong-batch' % st, 'drain %d handed out %r for %r, cached were %r' % (ndrains, pts[:4], metric, sorted(want.items())[:4]))
      return
    if st in ('max', 'bucketmax'):
      mx_ = max(len(v) for v in model.values())
      if len(pts) != mx_:
        res.violation('%s/marathon/not-maximum' % st, 'drain %d returned %r holding %d datapoints while the maximum was %d' % (ndrains, metric, len(pts), mx_))
        return
    model[metric] = {}
  res.count('marathon_drains', ndrains)
  res.count('schedules_executed')
  res.count('drains_observed', ndrains)
  res.case(('marathon', st), nontrivial=True)


def run_config(cfg, res):
  from vlib import boot, cachesim, sched as S
  ns = boot.boot('carbon-cache', {'CACHE_WRITE_STRATEGY': cfg['strategy'], 'MAX_CACHE_SIZE': cfg['max'], 'MIN_TIMESTAMP_LAG': cfg['lag'],
                                  'USE_FLOW_CONTROL': bool(cfg.get('fc'))})
  if cfg.get('marathon'):
    return run_marathon(cfg, res, ns)
  if cfg.get('startup'):
    from checks import c02_cache
    return c02_cache.run_startup(cfg, res, ns)
  world = cachesim.World(ns)
  r = gen.rng(cfg['seed'], 'C17', cfg['name'])
  label = cfg['strategy']
  nh = (2, 2) if cfg['tier'] == 'quick' else (6, 6)
  nrun = [0]
  for i in range(nh[0] + nh[1]):
    short = i < nh[0]
    ops, ndr = gen_history(r, cfg['lag'], short)
    seen = set()
    hk = hash(repr(ops))

    def one(policy, desc):
      nrun[0] += 1
      # with a lag configured, what is still too young when input stops becomes drainable either by the clock moving on
      # or by the daemon's shutdown hook setting the lag to zero: alternate between the two
      h = world.run(ops, ('drains', ndr), policy=policy, rest_via_hook=bool(cfg['lag']) and nrun[0] % 2 == 0)
      if getattr(h, 'rest_via_hook', False):
        res.count('rest_drained_after_shutdown_hook_zeroed_the_lag')
      res.count('schedules_executed')
      for k, v in h.window_hits.items():
        res.count('window_' + k, v)
      res.count('drains_observed', len(h.drains))
      if h.sched_error is not None:
        res.inconc('%s: %s' % (type(h.sched_error).__name__, h.sched_error))
        return h
      k = (hk, h.trace_hash)
      nd = len(set(d.get('metric') for d in h.drains if d.get('metric')))
      if k not in seen:
        seen.add(k)
        res.case(hash(k), nontrivial=(nd >= 2 and h.switches >= 2))
      else:
        res.evaluations += 1
      for sig, msg in oracle(h, cfg):
        res.violation(label + '/' + sig, '%s [%s lag=%d max=%s, %s dev=%r] history=%r drains=%d' % (msg, cfg['strategy'], cfg['lag'], cfg['max'], desc, h.deviations, ops, ndr),
                      dict(ops=ops, ndr=ndr, deviations=h.deviations), case=dict(ops=ops, ndr=ndr, deviations=h.deviations))
      return h
    h0 = one(S.DeviationPolicy({}), 'baseline')
    one(S.DeviationPolicy({0: 1}), 'mirror')
    for d in range(0, h0.decisions + 2):
      hi = one(S.DeviationPolicy({d: 1}), 'preempt@%d' % d)
      if short:
        for j in range(d + 1, hi.decisions + 1, (2 if cfg['tier'] == 'thorough' else 5)):
          one(S.DeviationPolicy({d: 1, j: 1}), 'preempt@%d,%d' % (d, j))
    for k in range(20 if cfg['tier'] == 'quick' else 80):
      one(S.RandomPolicy(gen.rng(r.random(), 'rp'), p=r.choice([0.05, 0.2, 0.5])), 'random')
    res.sample(dict(cfg=cfg['name'], ops=ops[:10], drains=ndr), cap=2)
    if i == nh[0] + nh[1] - 1:
      # a very long queue, under a handful of schedules
      ops, ndr = gen_history(r, cfg['lag'], True, big=True)
      seen = set()
      hk = hash(repr(ops))
      res.count('histories_with_a_queue_of_1000_or_more')
      one(S.DeviationPolicy({}), 'baseline')
      one(S.DeviationPolicy({0: 1}), 'mirror')
      for _ in range(2):
        one(S.RandomPolicy(gen.rng(r.random(), 'rp'), p=0.02), 'random')


def finalize(merged, tier):
  c = merged['counters']
  out = []
  for k in ('schedules_executed', 'window_store_during_drain_call', 'drains_observed'):
    if not c.get(k):
      out.append('monitor counter %s is zero' % k)
  return out


def classify(v):
  return None
