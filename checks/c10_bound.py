"""C10 — the cache stays within its configured bound and every refusal is signalled."""
from vlib import gen

PROPERTY = 'C10'
LEVEL = 'exploration'
RULE = ('case = (MAX_CACHE_SIZE, USE_FLOW_CONTROL, strategy, store/drain history with bursts against the limit, thread '
        'schedule); executed by real threads under the baton scheduler (scheduling point at every line of cache.py/events.py); '
        'monitors: size <= ceil(CACHE_SIZE_HARD_MAX) at EVERY scheduling point; a recorder on events.cacheOverflow defines '
        '"refused"; for every store not overlapped by writer steps the cache contents, len(cache) and size are snapshotted '
        'before and after: a refusal must change nothing, a store to an already cached timestamp must be accepted without '
        'overflow; the C02 accounting closes "every refusal is signalled"; non-trivial = execution with >=1 refusal or a '
        'store at the limit; distinct = distinct interleavings per history')
RULE_MORE = (' Further configurations: datapoints entering through the real pipeline with tagged series in any spelling, RELAY_CACHE_METRICS re-injection during a drain, the real writer loop with backend faults, timesorted with a lag; the bound is also checked on the datapoints actually held.')
RULE_MORE = RULE_MORE + " Round 11: instrumentation ticks at the cache's limit (every statistic recorded for the cache reaches store() or raises the overflow signal)."
RULE_MORE = RULE_MORE + " Round 12: tiny histories around one tick with switches concentrated inside the drain's critical section."
RULE = RULE + RULE_MORE
EXHAUSTIVE = {'quick': False, 'thorough': False}
EXHAUSTIVE_OVER = 'all schedules with <=1 preemption of every generated history'
ASSUMPTIONS = ['fractional hard limits are read as the integer capacity ceil(limit) (the code admits while size < limit); '
               'integral limits (flow control off; MAX 20, 40 with flow control) are checked exactly',
               'derived limits are computed by carbon\'s own option parsing, never by the harness']
TIMEOUT = {'quick': 900, 'thorough': 3000}


def configs(tier, seed):
  cfgs = []
  sizes = [1, 2, 3, 4, 5, 6, 20, 40]
  strategies = ['sorted', 'max', 'naive', 'timesorted', 'bucketmax', 'random']
  i = 0
  for mx in sizes:
    for fc in (True, False):
      sts = strategies if tier == 'thorough' else [strategies[i % 6], strategies[(i + 3) % 6]]
      i += 1
      for st in sts:
        cfgs.append(dict(name='max%d/fc%d/%s' % (mx, fc, st), max=mx, fc=fc, strategy=st))
      # datapoints entering through the daemon's pipeline (service.setupPipeline(['write'])), tagged series spelled in
      # whatever order / syntax the client likes: a re-sent datapoint is an update whatever its spelling
      cfgs.append(dict(name='max%d/fc%d/pipeline-%s' % (mx, fc, sts[0]), max=mx, fc=fc, strategy=sts[0], pipeline=True))
      # the real writer loop draining, with backend faults: whatever the writer does with a batch it could not write,
      # the cache stays within its bound and every refusal is signalled
      cfgs.append(dict(name='max%d/fc%d/writer-%s' % (mx, fc, sts[0]), max=mx, fc=fc, strategy=sts[0], writer=True))
      if fc:
        # RELAY_CACHE_METRICS with no destination up: the daemon's self-metrics wait in the relay buffer and are stored
        # from inside the cacheSpaceAvailable -> resumeReceivingMetrics dispatch, i.e. re-entrantly during a drain
        cfgs.append(dict(name='max%d/fc%d/relaybuf-%s' % (mx, fc, sts[-1]), max=mx, fc=fc, strategy=sts[-1], pipeline=True, relaybuf=True))
  # the daemon's own statistics are datapoints too: instrumentation ticks on the reactor thread while the cache is at its limit
  for k, mx in enumerate((1, 3, 6, 20)):
    for fc in (True, False):
      cfgs.append(dict(name='max%d/fc%d/ticks-%s' % (mx, fc, strategies[(k + fc) % 6]), max=mx, fc=fc, strategy=strategies[(k + fc) % 6], ticks=True))
  # timesorted with a lag: series holding points on both sides of now - lag when they are drained
  for mx in (3, 5):
    for fc in (True, False):
      cfgs.append(dict(name='max%d/fc%d/timesorted-lag30' % (mx, fc), max=mx, fc=fc, strategy='timesorted', lag=30))
  # the same limits configured through a per-instance section ([cache:b]) overriding other values in [cache]
  for (mx, fc, base) in ((3, True, dict(MAX_CACHE_SIZE=50, USE_FLOW_CONTROL=False)), (4, False, dict(MAX_CACHE_SIZE=4, USE_FLOW_CONTROL=True)),
                         (2, True, dict()), (5, False, dict(MAX_CACHE_SIZE='inf'))):
    cfgs.append(dict(name='instance/max%d/fc%d' % (mx, fc), max=mx, fc=fc, strategy='sorted', instance='b', base=base))
  return cfgs


SPELLINGS = [['disk.used;dc=ams;host=web1', 'disk.used;host=web1;dc=ams', 'disk.used{host="web1",dc="ams"}'],
             ['cpu;core=0;mode=idle', 'cpu;mode=idle;core=0', 'cpu{mode="idle",core="0"}', 'cpu{core="0",mode="idle"}'],
             ['plain.metric'], ['t;a=1', 't{a="1"}']]


def gen_history(r, mx, tagged=False):
  nm = r.randint(1, 4)
  metrics = ['m%d' % i for i in range(nm)]
  if r.random() < 0.1:
    metrics[r.randrange(nm)] = ''
  if tagged:
    ops = []
    fams = r.sample(SPELLINGS, r.randint(1, 3))
    for _ in range(min(mx + r.randint(2, 8), 40)):
      c = r.random()
      if c < 0.25 and ops:
        prev = r.choice(ops)
        fam = next((f for f in SPELLINGS if prev[1] in f), None) or [prev[1], prev[1].replace(';z=1;a=2', ';a=2;z=1')]
        ops.append(('store', r.choice(fam), prev[2]))        # the same series and timestamp again, spelled anyhow
      elif c < 0.35:
        ops.append(('store', 'new%d;z=1;a=2' % len(ops), 100))
      else:
        ops.append(('store', r.choice(r.choice(fams)), 100 + r.randrange(0, mx + 2)))
    return ops, r.randint(0, 3)
  n = min(mx + r.randint(2, 8), 50)
  ops = []
  for _ in range(n):
    c = r.random()
    if c < 0.15 and ops:
      prev = r.choice([o for o in ops if o[0] == 'store'] or [('store', 'm0', 100)])
      ops.append(('store', prev[1], prev[2]))          # update of a (possibly) cached timestamp
    elif c < 0.3:
      ops.append(('store', 'new%d' % len(ops), 100))   # new metric at the limit
    else:
      # sub-second clients: 100.5 is a different datapoint than 100 (it grows the cache and needs room like any other)
      ops.append(('store', r.choice(metrics), 100 + r.randrange(0, mx + 3) + (r.choice([0.25, 0.5]) if r.random() < 0.2 else 0)))
      if r.random() < 0.08:
        # clients that send milliseconds, or garbage: timestamps far outside any calendar
        ops[-1] = ('store', ops[-1][1], r.choice([1727864000000, 253402300800, 10 ** 15, 2 ** 63, 0]) + r.randrange(3))
  ndr = r.randint(0, 3)
  return ops, ndr


def oracle(h, world):
  from vlib import cachesim
  out = []
  if h.bound_violation:
    out.append(('bound-exceeded', 'size %(size)d exceeds the hard limit %(bound)d (step %(step)d, thread %(thread)s)' % h.bound_violation))
  if h.size_violation:
    out.append(('size-mismatch', 'size=%(size)d but %(actual)d datapoints held while the lock is free' % h.size_violation))
  nsig = 0
  for s in h.stores:
    nsig += s['signals'].count('overflow')
    if 'before' not in s or not s.get('undisturbed') or s.get('wstate0') == 'blocked':
      continue
    b, a = s['before'], s['after']
    key_cached = s['ts'] in b[0].get(s['metric'], {})
    if s['refused']:
      if key_cached:
        out.append(('update-refused-when-full', 'store to already cached (%r,%r) raised the overflow signal' % (s['metric'], s['ts'])))
      elif b != a:
        what = 'metric count %d -> %d' % (b[1], a[1]) if b[1] != a[1] else ('size %d -> %d' % (b[2], a[2]) if b[2] != a[2] else 'contents')
        kind = 'empty-entry-left' if (b[1] != a[1] and a[0].get(s['metric']) == {}) else 'changed'
        out.append(('refusal-side-effect/' + kind, 'refused store of (%r,%r) changed the cache: %s; before=%r after=%r' % (s['metric'], s['ts'], what, b[0], a[0])))
    else:
      if a[0].get(s['metric'], {}).get(s['ts']) != s['value'] and 'exc' not in s:
        out.append(('accepted-but-absent', 'store of (%r,%r,%r) raised no overflow signal but the value is not cached afterwards' % (s['metric'], s['ts'], s['value'])))
      if key_cached and a[2] != b[2]:
        out.append(('update-grew-cache', 'update of cached (%r,%r) changed size %d -> %d' % (s['metric'], s['ts'], b[2], a[2])))
      if not key_cached and world.bound is not None and b[2] >= world.hard_max and 'exc' not in s:
        out.append(('admitted-over-limit', 'new datapoint admitted with size %d >= hard limit %s' % (b[2], world.hard_max)))
      if not key_cached and world.bound is not None and b[2] < world.hard_max and a[2] != b[2] + 1 and 'exc' not in s:
        out.append(('accept-size', 'accepted new datapoint changed size %d -> %d' % (b[2], a[2])))
  if getattr(h, 'self_prefix', None):
    nsig = h.all_signals.count('overflow')       # refusals of the daemon's own (re-injected) self-metrics are signalled too
  counted = h.stats.get('cache.overflow', 0) + getattr(h, 'overflow_recorded', 0)      # what instrumentation ticks already reported
  if counted != nsig:
    out.append(('overflow-counter', 'cache.overflow counter %r but %d overflow signals observed' % (counted, nsig)))
  if getattr(h, 'tick_silent', 0):
    out.append(('self-metric-dropped-silently', '%d of the %d statistics an instrumentation tick recorded for the cache neither reached store() nor '
                'raised the overflow signal (e.g. %r at size %d)' % (h.tick_silent, h.tick_records, h.silent_self_metric[0], h.silent_self_metric[2])))
  out.extend(cachesim.check_conservation(h))
  return out


def run_writer(cfg, res, ns):
  from vlib import cachesim, sched as S
  world = cachesim.World(ns, trace_files=('cache.py', 'events.py', 'writer.py'))
  r = gen.rng(cfg['seed'], 'C10w', cfg['name'])
  excs = ['IOError', 'OSError', 'ValueError', 'KeyError']
  label = 'fc%d/writer' % cfg['fc']
  for w in range(2 if cfg['tier'] == 'quick' else 8):
    nm = r.randint(1, 3)
    metrics = ['m%d' % i for i in range(nm)]
    ops = []
    for _ in range(r.randint(2, 4)):
      for _ in range(r.randint(1, cfg['max'] + 2)):
        ops.append(('store', r.choice(metrics), 100 + r.randrange(0, cfg['max'] + 3)))
      ops.append(('sleep', r.choice([0.05, 0.5, 1.2, 2.5])))
    ops.append(('sleep', 2.5))
    ops.append(('stop',))
    plans = [{}] + [{i: excs[(i + w) % 4]} for i in range(8)] + [{i: r.choice(excs) for i in range(30) if r.random() < 0.3} for _ in range(8)]
    seen = set()
    for plan in plans:
      for policy, desc in ((S.DeviationPolicy({}), 'baseline'), (S.RandomPolicy(gen.rng(r.random(), 'rp'), p=r.choice([0.05, 0.2, 0.5])), 'random'),
                           (S.RandomPolicy(gen.rng(r.random(), 'rp'), p=0.3), 'random')):
        h = world.run(ops, ('loop',), policy=policy, fault_plan=plan, timeout=60, drain_rest=False)
        res.count('schedules_executed')
        res.count('writer_loop_schedules')
        res.count('bound_evaluations', h.steps)
        res.count('refusals_observed', sum(1 for s in h.stores if s['refused']))
        if h.sched_error is not None:
          res.inconc('%s: %s' % (type(h.sched_error).__name__, h.sched_error))
          return
        key = (hash(repr(ops)), repr(sorted(plan.items())), h.trace_hash)
        if key not in seen:
          seen.add(key)
          res.case(hash(key), nontrivial=any(s['refused'] for s in h.stores))
        else:
          res.evaluations += 1
        out = []
        if h.bound_violation:
          out.append(('bound-exceeded', 'size %(size)d exceeds the hard limit %(bound)d (step %(step)d, thread %(thread)s)' % h.bound_violation))
        if h.size_violation:
          out.append(('size-mismatch', 'size=%(size)d but %(actual)d datapoints held while the lock is free' % h.size_violation))
        nsig = h.all_signals.count('overflow')
        if h.stats.get('cache.overflow', 0) != nsig:
          out.append(('overflow-counter', 'cache.overflow counter %r but %d overflow signals observed' % (h.stats.get('cache.overflow', 0), nsig)))
        for sig, msg in out:
          res.violation(label + '/' + sig, '%s [max=%d fc=%s %s, real writer loop, fault plan %r, %s dev=%r] history=%r' % (
            msg, cfg['max'], cfg['fc'], cfg['strategy'], plan, desc, h.deviations, ops), dict(ops=ops, plan=plan, deviations=h.deviations),
            case=dict(ops=ops, plan=plan, deviations=h.deviations))


def run_config(cfg, res):
  from vlib import boot, cachesim, sched as S
  if cfg.get('instance'):
    base = dict(cfg['base'])
    base['CACHE_WRITE_STRATEGY'] = cfg['strategy']
    over = {}
    if base.get('MAX_CACHE_SIZE') != cfg['max']:
      over['MAX_CACHE_SIZE'] = cfg['max']
    if base.get('USE_FLOW_CONTROL', True) != cfg['fc']:
      over['USE_FLOW_CONTROL'] = cfg['fc']
    ns = boot.boot('carbon-cache', base, instance=cfg['instance'], instance_conf=over or {'MAX_CACHE_SIZE': cfg['max']})
  else:
    conf = {'CACHE_WRITE_STRATEGY': cfg['strategy'], 'MAX_CACHE_SIZE': cfg['max'], 'USE_FLOW_CONTROL': cfg['fc'], 'MIN_TIMESTAMP_LAG': cfg.get('lag', 0)}
    if cfg.get('relaybuf'):
      conf.update({'RELAY_CACHE_METRICS': True, 'DYNAMIC_ROUTER': True, 'RELAY_METHOD': 'consistent-hashing', 'DESTINATIONS': '127.0.0.1:2004:a'})
    ns = boot.boot('carbon-cache', conf)
  if cfg.get('writer'):
    return run_writer(cfg, res, ns)
  world = cachesim.World(ns, full_pipeline=bool(cfg.get('pipeline')))
  world.store_through_pipeline = bool(cfg.get('pipeline'))
  exp_hard = cfg['max'] * 1.05 if cfg['fc'] else cfg['max']
  if abs(world.hard_max - exp_hard) > 1e-9:
    res.violation('derived-limit', 'CACHE_SIZE_HARD_MAX is %r for MAX_CACHE_SIZE=%d flow control %s (statement: MAX, or 105%% of it under flow control)' % (world.hard_max, cfg['max'], cfg['fc']))
  r = gen.rng(cfg['seed'], 'C10', cfg['name'])
  label = 'fc%d' % cfg['fc']
  nh = 3 if cfg['tier'] == 'quick' else 8
  tiny = []
  if cfg.get('ticks'):
    # tiny histories around one tick, explored with every pair of preemptions: the tick lands inside a drain of the last
    # (or only) cached series, inside a refused store, right after the cache emptied
    tiny = [([('store', 'm0', 100), ('tick',)], 1), ([('store', 'm0', 100), ('store', 'm0', 101), ('tick',), ('store', 'm1', 100)], 2),
            ([('store', 'm0', 100), ('store', 'm1', 100), ('tick',), ('tick',)], 2)]
  for i in range(nh + len(tiny)):
    ops, ndr = gen_history(r, cfg['max'], tagged=bool(cfg.get('pipeline')))
    if i >= nh:
      ops, ndr = tiny[i - nh]
      ops = list(ops)
    if cfg.get('lag'):
      # timestamps around the virtual now (1000000): older than the lag and younger
      ops = [(o[0], o[1], (999900 if r.random() < 0.5 else 1000000 - r.choice([0, 5, 29])) + (o[2] - 100 if o[2] < 200 else 0)) if o[0] == 'store' else o for o in ops]
      ndr += 2
    if cfg.get('relaybuf'):
      for _ in range(r.randint(1, 4)):
        ops.insert(r.randrange(0, len(ops) + 1), ('relaybuf',))
      ndr += 2
    if cfg.get('ticks') and i < nh:
      for _ in range(r.randint(1, 3)):
        ops.insert(r.randrange(len(ops) // 2, len(ops) + 1), ('tick',))
      ndr += 1
    seen = set()
    hk = hash(repr(ops))

    def one(policy, desc):
      h = world.run(ops, ('drains', ndr), policy=policy, snap_stores=True)
      res.count('schedules_executed')
      res.count('self_metrics_recorded_by_ticks', getattr(h, 'tick_records', 0))
      res.count('bound_evaluations', h.steps)
      res.count('refusals_observed', sum(1 for s in h.stores if s['refused']))
      res.count('undisturbed_store_snapshots', sum(1 for s in h.stores if s.get('undisturbed')))
      if h.sched_error is not None:
        res.inconc('%s: %s' % (type(h.sched_error).__name__, h.sched_error))
        return h
      k = (hk, h.trace_hash)
      nontriv = any(s['refused'] or (s.get('before') and s['before'][2] >= cfg['max']) for s in h.stores)
      if k not in seen:
        seen.add(k)
        res.case(hash(k), nontrivial=nontriv)
      else:
        res.evaluations += 1
      for sig, msg in oracle(h, world):
        res.violation(label + '/' + sig, '%s [max=%d fc=%s %s, %s dev=%r] history=%r' % (msg, cfg['max'], cfg['fc'], cfg['strategy'], desc, h.deviations, ops),
                      dict(ops=ops, ndr=ndr, deviations=h.deviations), case=dict(ops=ops, ndr=ndr, deviations=h.deviations))
      return h
    h0 = one(S.DeviationPolicy({}), 'baseline')
    one(S.DeviationPolicy({0: 1}), 'mirror')
    stride = 1 if cfg['tier'] == 'thorough' else 2
    if i >= nh:
      # switches concentrated inside the drain's critical section (and rare elsewhere)
      def hot(frame):
        return frame.f_code.co_name in ('_pop', 'pop', 'drain_metric', '_check_available_space')
      for _ in range(150 if cfg['tier'] == 'quick' else 600):
        one(S.TargetedPolicy(gen.rng(r.random(), 'tp'), hot, p_hot=r.choice([0.3, 0.5, 0.7]), p_cold=r.choice([0.01, 0.03])), 'targeted')
      continue
    for d in range(0, h0.decisions + 2, stride):
      hi = one(S.DeviationPolicy({d: 1}), 'preempt@%d' % d)
      if cfg['tier'] == 'thorough' and h0.decisions < 120:
        for j in range(d + 1, hi.decisions + 1, 7):
          one(S.DeviationPolicy({d: 1, j: 1}), 'preempt@%d,%d' % (d, j))
    for k in range(15 if cfg['tier'] == 'quick' else 60):
      one(S.RandomPolicy(gen.rng(r.random(), 'rp'), p=r.choice([0.05, 0.2, 0.5])), 'random')
    res.sample(dict(cfg=cfg['name'], ops=ops[:10], drains=ndr, hard_max=world.hard_max), cap=2)


def finalize(merged, tier):
  c = merged['counters']
  out = []
  for k in ('bound_evaluations', 'refusals_observed', 'undisturbed_store_snapshots'):
    if not c.get(k):
      out.append('monitor counter %s is zero' % k)
  return out


def classify(v):
  return None
