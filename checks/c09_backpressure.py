"""C09 — back-pressure always lets go: paused receivers are resumed once buffers drain."""
from vlib import gen

PROPERTY = 'C09'
LEVEL = 'exploration'
RULE = ('Liveness restated as bounded progress at quiescence.  cache mode: case = (MAX_CACHE_SIZE 1..6, strategy, workload of '
        'chunks of 1..6 lines sent through real MetricLineReceivers that honour the pause, thread schedule); the real '
        'writeForever() drains on the writer thread; flow-control wiring is carbon\'s own setupPipeline(); schedules: every '
        '1-preemption, sampled 2-preemptions, random and event-dispatch-targeted switching; at the end (both threads done, cache '
        'drained) no receiver may be paused.  relay mode: the C07 event sequences (exhaustive short, random long, 1-3 '
        'destinations, queue size x watermark x batch size, dynamic router) followed by a deterministic quiescence epilogue '
        '(all destinations up, transports unpaused, all timers fired); receivers - including one connected while paused - '
        'must be resumed; non-trivial = execution in which receivers were paused at least once; distinct = interleavings / '
        'sequences')
RULE_MORE = (' Also relay configurations without flow control (nobody may end up paused) and sub-second points in the cache workloads.')
RULE_MORE = RULE_MORE + ' Rounds 10-11: the late-receiver observation counts pause requests on the new transport; closes requested by carbon may take effect later; a directed connection-quality-reset family; more schedules for caches of 1-2 datapoints.'
RULE_MORE = RULE_MORE + ' Round 12: pooled connections to one host:port (DESTINATION_POOL_REPLICAS), one member stalling until its queue reports full and then lost.'
RULE = RULE + RULE_MORE
EXHAUSTIVE = {'quick': False, 'thorough': False}
EXHAUSTIVE_OVER = 'cache mode: all single-preemption schedules per workload; relay mode: all applicable sequences up to length L per prefix'
ASSUMPTIONS = ['an unbounded "eventually" is out of reach for runtime monitoring: the property is checked at quiescence as its '
               'quantifier text asks', 'a pause caused by "no destination available" (dynamic router) is not a watermark pause and is '
               'exempt while the router is empty']
TIMEOUT = {'quick': 900, 'thorough': 3000}


def configs(tier, seed):
  cfgs = []
  sts = ['sorted', 'max', 'naive', 'timesorted', 'bucketmax', 'random']
  i = 0
  for mx in (1, 2, 3, 4, 5, 6):
    for st in (sts if tier == 'thorough' else [sts[i % 6]]):
      for w in range(2 if tier == 'quick' else 2):
        cfgs.append(dict(name='cache/max%d/%s/w%d' % (mx, st, w), mode='cache', max=mx, strategy=st))
    # a cache daemon that relays its own metrics (RELAY_CACHE_METRICS) through a dynamic router with no destination up:
    # the resume event re-injects the relay buffer into the cache from inside the event dispatch
    cfgs.append(dict(name='cache/max%d/%s/relaybuf' % (mx, sts[(i + 2) % 6]), mode='cache', max=mx, strategy=sts[(i + 2) % 6], relaybuf=True))
    i += 1
  for mq in (2, 4, 10):
    for low in ((0.25, 0.5, 0.8, 1.0) if tier == 'thorough' else (0.5, 0.8)):
      cfgs.append(dict(name='relay/q%d/low%s' % (mq, low), mode='relay', maxq=mq, fc=True, low=low))
  # USE_FLOW_CONTROL off: queues still fill up and drain, nobody may end up paused
  for mq in ((2,) if tier == 'quick' else (2, 4, 10)):
    cfgs.append(dict(name='relay/q%d/low0.5/fc0' % mq, mode='relay', maxq=mq, fc=False, low=0.5))
  return cfgs


def relay_oracle(s, v, cfg, res):
  if s.stopped:
    return
  low = s.low
  late = None
  if s.state.metricReceiversPaused:
    # a client connecting while paused must be paused too (with flow control; without it nobody is ever paused) ...
    n0 = len(s.protos)
    s.add_receivers(1)
    late = s.protos[n0]
    res.count('receivers_connected_while_paused')
    if late.transport.producerState != 'paused' and s.settings.USE_FLOW_CONTROL:
      s.viol('relay/late-receiver-not-paused', 'a receiver connected while receivers were paused was not paused')
  ever = s.was_paused or s.state.metricReceiversPaused
  # epilogue B (every other sequence): destinations that are down right now stay down
  keep_down = ()
  if (len(s.log) + s.nid) % 2 == 1:
    keep_down = tuple(i for i in range(len(s.dests)) if s.connector(i) is not None and s.connector(i).state != 'connected')
    if keep_down:
      res.count('quiescence_with_destinations_down')
  ok = s.quiesce(keep_down=keep_down)
  res.count('quiescence_evaluations')
  if not ok:
    res.count('quiescence_not_reached')
    return
  st = s.paused_state()
  if ever:
    res.count('sequences_with_pause')
  if st['destinations'] == 0:
    res.count('quiescent_without_destination')
    return
  below = all(q is None or q < low for q in st['queues'])
  paused = st['metricReceiversPaused'] or any(x == 'paused' for x in st['receivers_paused'])
  if below and paused:
    kind = ('after-reroute' if s.counters['reinjected'] else 'after-send') + ('/destination-down' if keep_down else '')
    s.viol('relay/stuck-paused/' + kind,
           'quiescent (all destinations connected, timers fired, queues %r below the low watermark %s) but receivers are still paused: %r' % (st['queues'], low, st))


def directed_relay(cfg, res):
  """Directed family: one destination is filled until the receivers pause, then lost (dynamic router), while the
  others keep working; followed by every tail of <=2 events and both quiescence epilogues."""
  import itertools
  from vlib import relayharness as rh
  import checks.c07_queues as c7
  ns = None
  from carbon.conf import settings

  class NS(object):
    pass
  ns = NS()
  ns.settings = settings
  ns._verif_prev_seq = None
  tails = [()] + [(e,) for e in ('arrive', 'adv_defer', 'adv_next', 'conn_made', 'conn_failed', 'fill')]
  tails += [(a, b) for a in ('arrive', 'adv_next', 'conn_failed') for b in ('arrive', 'adv_defer', 'conn_made')]
  for nd in (2, 3):
    for retries in (0, 1):
      for batch in (1, 3, 500):
        for victim in range(nd):
          for tail in tails:
            v = dict(batch=batch, dyn=True, retries=retries, protocol='pickle')
            ns.transport_hw = c7.apply_variant(settings, v, 'consistent-hashing', 1)
            s = rh.Seq(ns, c7.DESTS[:nd], receivers=2)
            evs = [('conn_made', i) for i in range(nd)] + [('pause', victim), ('fill', 0), ('adv_defer', 0), ('adv_defer', 0)]
            evs += [('conn_lost', victim)] + [('conn_failed', victim)] * retries + [(e, victim) for e in tail]
            for ev, i in evs:
              s.apply(ev, i)
            res.count('directed_sequences')
            relay_oracle(s, dict(v, nd=nd, directed=True), cfg, res)
            for sig, msg in [x for x in s.violations if x[0].startswith('relay/')][:2]:
              if sig.startswith('relay/'):
                res.violation(sig + '/dyn', '%s [maxq=%d low=%s %r nd=%d] events=%r' % (msg, cfg['maxq'], cfg['low'], v, nd, s.log),
                              dict(cfg=cfg, variant=v, events=s.log))
            res.case(repr((nd, retries, batch, victim, tail)), nontrivial=s.was_paused)


def directed_pool(cfg, res):
  """Directed family: DESTINATION_POOL_REPLICAS - three connections to one host:port share the load (the shortest queue takes
  the next datapoint).  One member stalls (its transport pushes back) until its queue reports full and the receivers pause,
  the others keep draining; then the stalled connection is lost.  Every tail of <= 2 events, then quiescence."""
  from vlib import relayharness as rh
  import checks.c07_queues as c7
  from carbon.conf import settings

  class NS(object):
    pass
  ns = NS()
  ns.settings = settings
  pool = [('127.0.0.1', 2004, 'a'), ('127.0.0.1', 2004, 'b'), ('127.0.0.1', 2004, 'c')]
  tails = [()] + [(e,) for e in ('arrive', 'adv_defer', 'adv_next', 'conn_made', 'conn_failed', 'resume')]
  tails += [(a, b) for a in ('adv_defer', 'adv_next', 'conn_failed', 'conn_made') for b in ('arrive', 'adv_defer', 'conn_made')]
  try:
    for npool in (2, 3):
      for protocol in ('pickle', 'line'):
        for batch in (1, 3, 500):
          for victim in range(npool):
            for drain_first in (0, 2, 5):
              for tail in tails:
                v = dict(batch=batch, dyn=False, retries=5, protocol=protocol)
                ns.transport_hw = c7.apply_variant(settings, v, 'consistent-hashing', 1)
                settings['DESTINATION_POOL_REPLICAS'] = False
                s = rh.Seq(ns, pool[:npool], receivers=2)
                # (switched on once the manager exists: at start-up it would install a DNS resolver into the reactor)
                settings['DESTINATION_POOL_REPLICAS'] = True
                evs = [('conn_made', i) for i in range(npool)] + [('pause', victim), ('fill', 0)] + [('adv_defer', 0)] * drain_first
                evs += [('conn_lost', victim)] + [(e, victim) for e in tail]
                for ev, i in evs:
                  s.apply(ev, i)
                res.count('directed_pool_sequences')
                relay_oracle(s, dict(v, nd=npool, directed=True, pool=True), cfg, res)
                for sig, msg in [x for x in s.violations if x[0].startswith('relay/')][:2]:
                  if sig.startswith('relay/'):
                    res.violation(sig + '/pool', '%s [maxq=%d low=%s %r pool of %d] events=%r' % (msg, cfg['maxq'], cfg['low'], v, npool, s.log),
                                  dict(cfg=cfg, variant=v, events=s.log))
                res.case(repr(('pool', npool, protocol, batch, victim, drain_first, tail)), nontrivial=s.was_paused)
  finally:
    settings['DESTINATION_POOL_REPLICAS'] = False


def directed_quality_reset(cfg, res):
  """Directed family: USE_RATIO_RESET.  The queue fills while the destination is connecting (receivers pause), a statistics
  tick records that nothing was sent, the connection comes up and is reset for its quality by the very send that starts to
  drain the queue; the close takes effect at once or a few events later (the factory keeps sending through the protocol
  it closed); then every tail of <= 2 events and quiescence."""
  from vlib import relayharness as rh
  import checks.c07_queues as c7
  from carbon.conf import settings

  class NS(object):
    pass
  ns = NS()
  ns.settings = settings
  tails = [()] + [(e,) for e in ('arrive', 'adv_defer', 'adv_next', 'conn_made', 'stats')]
  tails += [(a, b) for a in ('adv_defer', 'adv_next', 'conn_made') for b in ('adv_defer', 'conn_made', 'arrive')]
  for protocol in ('pickle', 'line'):
    for batch in (1, 3, 500):
      for interval in (0, 121):
        for pre in (0, 1, 3):
          for tail in tails:
            v = dict(batch=batch, dyn=False, retries=5, protocol=protocol, ratio=True, reset_interval=interval)
            ns.transport_hw = c7.apply_variant(settings, v, 'constant', 1)
            s = rh.Seq(ns, c7.DESTS[:1], receivers=2)
            evs = [('fill', 0), ('stats', 0)]
            if interval:
              evs = [('conn_made', 0), ('conn_lost', 0)] + evs      # an earlier connection: its last reset is long ago
            evs += [('conn_made', 0)] + [('adv_defer', 0)] * pre + [(e, 0) for e in tail]
            for ev, i in evs:
              s.apply(ev, i)
              if ev == 'stats' and interval:
                s.fake.advance(200)
            res.count('directed_quality_reset_sequences')
            res.count('quality_resets_in_directed_sequences', s.counters.get('quality_resets_observed', 0))
            res.count('closes_taking_effect_later', s.counters.get('closes_taking_effect_later', 0))
            relay_oracle(s, dict(v, nd=1, directed=True), cfg, res)
            for sig, msg in [x for x in s.violations if x[0].startswith('relay/')][:2]:
              if sig.startswith('relay/'):
                res.violation(sig + '/quality-reset', '%s [maxq=%d low=%s %r] events=%r' % (msg, cfg['maxq'], cfg['low'], v, s.log),
                              dict(cfg=cfg, variant=v, events=s.log))
            res.case(repr(('qr', protocol, batch, interval, pre, tail)), nontrivial=s.was_paused)


def run_cache(cfg, res):
  from vlib import boot, cachesim, sched as S
  conf = {'CACHE_WRITE_STRATEGY': cfg['strategy'], 'MAX_CACHE_SIZE': cfg['max'], 'USE_FLOW_CONTROL': True, 'MAX_UPDATES_PER_SECOND': 'inf'}
  if cfg.get('relaybuf'):
    conf.update({'RELAY_CACHE_METRICS': True, 'DYNAMIC_ROUTER': True, 'RELAY_METHOD': 'consistent-hashing', 'DESTINATIONS': '127.0.0.1:2004:a'})
  ns = boot.boot('carbon-cache', conf)
  world = cachesim.World(ns, trace_files=('cache.py', 'events.py', 'protocols.py'), full_pipeline=True)
  r = gen.rng(cfg['seed'], 'C09', cfg['name'])
  label = 'cache'
  low = cfg['max'] * 0.95          # "drained below 95% of MAX_CACHE_SIZE" (statement), not read back from carbon
  if abs(ns.settings.CACHE_SIZE_LOW_WATERMARK - low) > 1e-9:
    res.violation('cache/derived-watermark', 'MAX_CACHE_SIZE=%s gives a low watermark of %s by the statement, carbon uses %s' % (
      cfg['max'], low, ns.settings.CACHE_SIZE_LOW_WATERMARK))

  def hot(frame):
    fn = frame.f_code.co_filename
    return fn.endswith('events.py') or frame.f_code.co_name in ('_check_available_space', 'pop', '_pop', 'drain_metric')

  for w in range(1):
    ops = []
    nm = 0
    for c in range(r.randint(3, 7)):
      k = r.choice([1, 2, 4, 5, 6, 6])
      pts = []
      for _ in range(k):
        nm += 1
        pts.append(('c%d' % (nm % 7), 999900 + nm))
        if r.random() < 0.25:
          # sub-second clients: more points of the same series within the same second
          pts.append(('c%d' % (nm % 7), 999900 + nm + r.choice([0.25, 0.5, 0.75])))
      ops.append(('chunk', r.randrange(2), pts))
      if r.random() < 0.35:
        ops.append(('sleep', r.choice([0.01, 0.5, 1.1])))
      if r.random() < 0.15:
        ops.append(('connect',))
      if r.random() < 0.12:
        ops.append(('disconnect', r.randrange(3)))
      if cfg.get('relaybuf') and r.random() < 0.5:
        ops.append(('relaybuf',))
    ops.append(('sleep', 2.5))
    ops.append(('sleep', 2.5))
    ops.append(('stop',))
    seen = set()

    def one(policy, desc):
      h = world.run(ops, ('loop',), policy=policy, timeout=60, drain_rest=False, receivers=3)
      res.count('schedules_executed')
      if h.sched_error is not None:
        if type(h.sched_error).__name__ == 'Deadlock':
          res.violation('cache/deadlock', 'threads deadlocked (a thread waits for the cache lock for ever): %s [%s, %s dev=%r] workload=%r' % (
            h.sched_error, cfg['name'], desc, h.deviations, ops), dict(ops=ops, deviations=h.deviations))
        else:
          res.inconc('%s: %s' % (type(h.sched_error).__name__, h.sched_error))
        return h
      res.count('window_switch_inside_event_dispatch', h.window_hits['switch_inside_event_dispatch'])
      paused_ever = any(s_[1] == 'full' for s_ in world.signals)
      res.count('executions_with_pause', 1 if paused_ever else 0)
      res.count('chunks_skipped_while_paused', getattr(h, 'skipped_paused', 0))
      key = (hash(repr(ops)), h.trace_hash)
      if key not in seen:
        seen.add(key)
        res.case(hash(key), nontrivial=paused_ever)
      else:
        res.evaluations += 1
      viol = []
      res.count('quiescence_evaluations')
      states = [p.transport.producerState for p in h.protos]
      # "once the cache has drained below 95%": what counts is the datapoints really held, not carbon's counter of them
      held = min(h.final_size, getattr(h, 'final_held', h.final_size))
      if held < low and (world.state.metricReceiversPaused or 'paused' in states):
        late_only = (not world.state.metricReceiversPaused and getattr(h, 'closed', 0) == 0 and 'paused' not in states[:2])
        res.count('disconnects_during_resume_dispatch', getattr(h, 'disconnect_during_resume_dispatch', 0))
        if (getattr(h, 'disconnect_during_resume_dispatch', 0) and not world.state.metricReceiversPaused
            and not world.state.cacheTooFull):
          kind = 'disconnect-during-resume-dispatch'
        else:
          kind = 'receiver-connected-during-resume' if late_only else 'flow-control-state'
        viol.append(('stuck-paused/' + kind, 'writer exited, cache holds %d datapoints (< low watermark %s; its size counter says %d) but receivers are paused: '
                     'metricReceiversPaused=%s cacheTooFull=%s transports=%r' % (held, low, h.final_size, world.state.metricReceiversPaused,
                                                                                 world.state.cacheTooFull, states)))
      for p in h.protos:
        if (getattr(p, 'verif_connected_while_paused', False) and p.verif_state_after_connect != 'paused'
            and not getattr(p, 'verif_writer_mid_dispatch', False)):
          viol.append(('late-receiver-not-paused', 'a receiver connected while receivers were paused was not paused'))
      for name, e in h.thread_exc:
        viol.append(('thread-died/%s' % type(e).__name__, 'thread %s died with %r' % (name, e)))
      for sig, msg in viol:
        res.violation(label + '/' + sig, '%s [%s, %s dev=%r] workload=%r' % (msg, cfg['name'], desc, h.deviations, ops),
                      dict(ops=ops, deviations=h.deviations), case=dict(ops=ops, deviations=h.deviations))
      return h

    h0 = one(S.DeviationPolicy({}), 'baseline')
    one(S.DeviationPolicy({0: 1}), 'mirror')
    n0 = h0.decisions
    budget2 = 300 if cfg['tier'] == 'quick' else 1500
    for d in range(0, n0 + 3):
      hi = one(S.DeviationPolicy({d: 1}), 'preempt@%d' % d)
      m = hi.decisions + 2 - (d + 1)
      take = max(1, budget2 // max(1, n0 + 3))
      if m > 0:
        for j in sorted(set(r.randrange(d + 1, hi.decisions + 2) for _ in range(min(take, m)))):
          one(S.DeviationPolicy({d: 1, j: 1}), 'preempt@%d,%d' % (d, j))
    # small caches cross the high watermark on almost every store: that is where the two handler chains can meet
    nrand = (200 if cfg['max'] > 2 else 1500) if cfg['tier'] == 'quick' else (500 if cfg['max'] > 2 else 3000)
    for _ in range(nrand):
      c = r.random()
      if c < 0.75:
        one(S.TargetedPolicy(gen.rng(r.random(), 'tp'), hot, p_hot=r.choice([0.3, 0.5, 0.7]), p_cold=r.choice([0.01, 0.05])), 'targeted')
      else:
        one(S.RandomPolicy(gen.rng(r.random(), 'rp'), p=r.choice([0.05, 0.2, 0.5])), 'random')
    res.sample(dict(cfg=cfg['name'], workload=ops), cap=2)


def run_config(cfg, res):
  if cfg['mode'] == 'cache':
    return run_cache(cfg, res)
  from checks import c07_queues
  import checks.c07_queues as c7
  old = c7.PROPERTY
  c7.PROPERTY = 'C09'
  try:
    c7.run_config(cfg, res, relay_oracle=relay_oracle, extra_weights=dict(fill=1.5, pause=2.5, conn_lost=2.5, conn_failed=2, stop=0.02))
  finally:
    c7.PROPERTY = old
  directed_relay(cfg, res)
  if cfg['fc']:
    directed_quality_reset(cfg, res)
    directed_pool(cfg, res)
  # C07's own oracle also ran; its findings are C07's, not C09's: keep only relay/* signatures
  res.violations = [v for v in res.violations if v['sig'].startswith('relay/')]


def finalize(merged, tier):
  c = merged['counters']
  out = []
  for k in ('quiescence_evaluations', 'executions_with_pause', 'sequences_with_pause', 'window_switch_inside_event_dispatch',
            'receivers_connected_while_paused', 'quiescence_with_destinations_down'):
    if not c.get(k):
      out.append('monitor counter %s is zero' % k)
  return out


def classify(v):
  if v['sig'] == 'cache/stuck-paused/disconnect-during-resume-dispatch':
    return 'C09-d'
  return None
