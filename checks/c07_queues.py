"""C07 — relay send queues deliver in order, exactly once, within their bounds."""
import itertools

from vlib import gen

PROPERTY = 'C07'
LEVEL = 'exploration'
RULE = ('case = (MAX_QUEUE_SIZE, flow control, watermark, batch size, dynamic router + retries, router, client protocol, event '
        'sequence over {arrive, arrive self-metric, connection made / lost / failed, transport pause / resume, timer advances, '
        'stop}); executed on the real CarbonClientManager / factories / client protocols / RelayProcessor wired by carbon\'s own '
        'setupRelayProcessor on a fake reactor; every datapoint has a unique id; after EVERY event the bytes of every transport '
        'are decoded and checked: no duplicates, arrival order for normal datapoints, per-destination conservation '
        '(accepted = written + queued + re-routed), queue bound, drops only at the hard limit and all counted, sent counter; '
        're-routing is observed at destinationDown; after stop a destination may be closed only with an empty queue; '
        'after a sequence a deterministic epilogue (all up, unpaused, timers fired) must leave every queue empty; '
        'exhaustive sequences up to length L from several prefixes for one destination, seeded random sequences of length '
        '30-200 for 1-3 destinations; non-trivial = sequence with >=1 connection event and >=2 arrivals; distinct = sequences')
RULE_MORE = (" Variants also cover MAX_QUEUE_SIZE_HARD_PCT, USE_RATIO_RESET with statistics ticks (self-metrics injected every other tick), name caches, this daemon's PICKLE_RECEIVER_MAX_LENGTH, series under CARBON_METRIC_PREFIX; an orderly stop may not write after asking the transport to close; every arrival is compared with what the live router names.")
RULE_MORE = RULE_MORE + " Rounds 10-11: infinities and fractions among the relayed values; anything an event or a timer-driven call raises out of carbon is a violation; the Deferred of the orderly stop is watched (no destination connected since the stop began may have anything queued when it fires); carbon's own closes may take effect a few events later."
RULE_MORE = RULE_MORE + ' Round 12: deep backlogs sent in small messages with TIME_TO_DEFER_SENDING at its default and at 0.'
RULE = RULE + RULE_MORE
EXHAUSTIVE = {'quick': True, 'thorough': True}
EXHAUSTIVE_OVER = 'all applicable event sequences up to length L (quick L=4, thorough L=5) after each listed prefix, one destination'
ASSUMPTIONS = ['USE_RATIO_RESET, SSL and DESTINATION_POOL_REPLICAS off; <=3 destinations',
               'a transport on which the client called loseConnection() is closed at the end of the same harness step',
               'fractional hard limits read as ceil(limit)']
TIMEOUT = {'quick': 900, 'thorough': 3000}

PREFIXES = [[], ['conn_made'], ['arrive', 'arrive', 'conn_made'], ['conn_made', 'arrive', 'arrive', 'arrive', 'pause'],
            ['arrive', 'arrive', 'arrive', 'arrive', 'conn_failed'], ['conn_made', 'arrive', 'adv_defer', 'conn_lost']]
DESTS = [('127.0.0.1', 2004, 'a'), ('127.0.0.2', 2004, 'b'), ('127.0.0.3', 2004, 'c')]


def configs(tier, seed):
  cfgs = []
  i = 0
  for mq in (2, 4, 10):
    for fc in (True, False):
      for low in ((0.5,) if tier == 'quick' else (0.25, 0.8)):
        # MAX_QUEUE_SIZE_HARD_PCT: the default, no headroom at all, and twice the queue size
        hp = [1.25, 1.0, 2.0][i % 3]
        i += 1
        cfgs.append(dict(name='q%d/fc%d/low%s/hard%s' % (mq, fc, low, hp), maxq=mq, fc=fc, low=low, hardpct=hp))
  # deep backlogs: thousands of datapoints queued while the destination is away, sent in small messages once it is back,
  # with TIME_TO_DEFER_SENDING at its default and at 0 ("send as fast as possible")
  for defer in (0.0001, 0):
    cfgs.append(dict(name='q3000/fc1/low0.5/backlog/defer%s' % defer, maxq=3000, fc=True, low=0.5, hardpct=1.25, backlog=True, defer=defer))
  return cfgs


def run_backlog(cfg, res):
  from vlib import relayharness as rh
  rl = rh.boot_relay({'RELAY_METHOD': 'constant', 'DESTINATIONS': '127.0.0.1:2004:a', 'MAX_QUEUE_SIZE': cfg['maxq'],
                      'USE_FLOW_CONTROL': cfg['fc'], 'QUEUE_LOW_WATERMARK_PCT': cfg['low'], 'TIME_TO_DEFER_SENDING': cfg['defer'],
                      'MAX_QUEUE_SIZE_HARD_PCT': cfg.get('hardpct', 1.25)})
  ns = rl.ns
  r = gen.rng(cfg['seed'], PROPERTY, cfg['name'])
  for protocol in ('pickle', 'line'):
    for batch, depth in ((1, 1200), (3, 2400), (7, 2800), (500, 2900)):
      v = dict(batch=batch, dyn=False, retries=5, protocol=protocol, hw=None)
      ns.transport_hw = apply_variant(ns.settings, v, 'constant', 1)
      s = rh.Seq(ns, DESTS[:1])
      quiet = s.check_invariants
      s.check_invariants = lambda: None           # the accounting is evaluated at the marked points, not after each of thousands of events
      for _ in range(depth):
        s.apply('arrive', 0)
      quiet()
      s.apply('conn_made', 0)
      quiet()
      for _ in range(r.randint(0, 3)):
        s.apply('arrive', 0)                       # a later arrival kicks the factory again
      n = 0
      while s.fake.getDelayedCalls() and n < 4 * depth:
        s.apply('adv_next', 0)
        n += 1
      s.check_invariants = quiet
      quiet()
      s.report_call_errors()
      f = s.fmap.get(DESTS[0])
      res.count('backlog_sequences')
      res.count('backlog_datapoints_written', s.counters.get('writes_decoded', 0))
      if f is not None and len(f.queue) and not s.violations:
        s.viol('backlog/not-drained', '%d datapoints still queued with the destination connected and no timer pending' % len(f.queue))
      for sig, msg in s.violations[:3]:
        res.violation(sig + '/backlog', '%s [defer=%s %r backlog of %d]' % (msg, cfg['defer'], v, depth), dict(cfg=cfg, variant=v, depth=depth))
      res.case(repr((protocol, batch, depth)), nontrivial=True)


def variants(r, tier):
  """In-process configuration variants."""
  out = []
  for batch in (1, 3, 500):
    for dyn, retries in ((False, 5), (True, 0), (True, 1)):
      for protocol in ('pickle', 'line'):
        # hw: bytes a transport buffers before it pauses its producer from inside write() (None: only harness pauses)
        for hw in (None, 25):
          out.append(dict(batch=batch, dyn=dyn, retries=retries, protocol=protocol, hw=hw))
  r.shuffle(out)
  # USE_RATIO_RESET: connections that send less than MIN_RESET_RATIO of what was received in the last stats period are
  # reset (at most every MIN_RESET_INTERVAL seconds); only meaningful with statistics ticks in the sequence
  for k, v in enumerate(out):
    v['namecache'] = (k % 3 == 1)          # CACHE_METRIC_NAMES_MAX / _TTL as suggested in carbon.conf.example
    v['framelimit'] = (60 if k % 3 == 2 else 2 ** 20)     # PICKLE_RECEIVER_MAX_LENGTH as set on this daemon (its own listener's limit)
    v['ratio'] = (k % 4 == 3)
    v['reset_interval'] = [0, 121][k % 2]
  return out


def apply_variant(settings, v, router='constant', rf=1):
  settings['MAX_DATAPOINTS_PER_MESSAGE'] = v['batch']
  settings['DYNAMIC_ROUTER'] = v['dyn']
  settings['DYNAMIC_ROUTER_MAX_RETRIES'] = v['retries']
  settings['DESTINATION_PROTOCOL'] = v['protocol']
  settings['RELAY_METHOD'] = router
  settings['REPLICATION_FACTOR'] = rf
  settings['DIVERSE_REPLICAS'] = False
  settings['USE_RATIO_RESET'] = bool(v.get('ratio'))
  settings['PICKLE_RECEIVER_MAX_LENGTH'] = v.get('framelimit', 2 ** 20)
  settings['CACHE_METRIC_NAMES_MAX'] = 1000 if v.get('namecache') else 0
  settings['CACHE_METRIC_NAMES_TTL'] = 600 if (v.get('namecache') and v.get('ratio')) else 0
  settings['MIN_RESET_STAT_FLOW'] = 1 if v.get('ratio') else 1000
  settings['MIN_RESET_INTERVAL'] = v.get('reset_interval', 121)
  from carbon.conf import settings as _s
  return v.get('hw')


def run_sequence(ns, dests, events, receivers=0):
  from vlib import relayharness as rh
  s = rh.Seq(ns, dests, receivers=receivers)
  for ev in events:
    if isinstance(ev, tuple):
      ok = s.apply(ev[0], ev[1])
    else:
      ok = s.apply(ev, 0)
    if ok is False:
      return s, False
    if s.violations:
      break
  return s, True


def run_config(cfg, res, relay_oracle=None, extra_weights=None):
  if cfg.get('backlog'):
    return run_backlog(cfg, res)
  from vlib import relayharness as rh
  rl = rh.boot_relay({'RELAY_METHOD': 'constant', 'DESTINATIONS': '127.0.0.1:2004:a', 'MAX_QUEUE_SIZE': cfg['maxq'],
                      'USE_FLOW_CONTROL': cfg['fc'], 'QUEUE_LOW_WATERMARK_PCT': cfg['low'], 'TIME_TO_DEFER_SENDING': 0.0001,
                      'MAX_QUEUE_SIZE_HARD_PCT': cfg.get('hardpct', 1.25)})
  ns = rl.ns
  import carbon.client as _client
  exp_hard = cfg['maxq'] * cfg.get('hardpct', 1.25) if cfg['fc'] else cfg['maxq']
  exp_low = cfg['maxq'] * cfg['low']
  if abs(_client.SEND_QUEUE_HARD_MAX - exp_hard) > 1e-9 or abs(_client.SEND_QUEUE_LOW_WATERMARK - exp_low) > 1e-9:
    res.violation(('relay/' if relay_oracle else '') + 'derived-limits',
                  'MAX_QUEUE_SIZE=%s USE_FLOW_CONTROL=%s QUEUE_LOW_WATERMARK_PCT=%s MAX_QUEUE_SIZE_HARD_PCT=%s give hard limit %s / low watermark %s '
                  'by the documentation, carbon uses %s / %s' % (cfg['maxq'], cfg['fc'], cfg['low'], cfg.get('hardpct', 1.25),
                                                                exp_hard, exp_low, _client.SEND_QUEUE_HARD_MAX, _client.SEND_QUEUE_LOW_WATERMARK))
  r = gen.rng(cfg['seed'], PROPERTY, cfg['name'])
  vs = variants(r, cfg['tier'])
  L = 4 if cfg['tier'] == 'quick' else 5
  alphabet = rh.ALPHABET

  def report(s, v, events, extra=None):
    for sig, msg in s.violations[:3]:
      res.violation(sig + ('/dyn' if v['dyn'] else ''), '%s [maxq=%d fc=%s low=%s %r] events=%r' % (msg, cfg['maxq'], cfg['fc'], cfg['low'], v, s.log),
                    dict(cfg=cfg, variant=v, events=s.log), case=dict(variant=v, events=s.log))

  def finish(s, v, events):
    for k, n in s.counters.items():
      if k in ('accepted', 'refused', 'reinjected', 'stop_raised', 'pauses_from_inside_write', 'closes_by_carbon_observed', 'stats_ticks', 'quality_resets_observed', 'stop_completions_observed', 'closes_taking_effect_later'):
        res.count(k, n)
    res.count('sequences_executed')
    res.count('events_executed', len(s.log))
    res.count('invariant_evaluations', len(s.log))
    if relay_oracle:
      relay_oracle(s, v, cfg, res)
    elif not s.stopped and not s.violations:
      # bounded progress: once every destination is connected, unpaused and all timers have fired, whatever was accepted
      # has been written ("written exactly once" includes "written")
      if s.quiesce():
        res.count('quiescence_evaluations')
        for i, d in enumerate(s.dests):
          f = s.factory(i)
          c = s.connector(i)
          if f is not None and c is not None and c.state == 'connected' and len(f.queue) and s.manager.router.hasDestination(d):
            s.viol('progress/queue-stuck', '%s is connected and unpaused, no timer is pending, but %d accepted datapoints are still queued: %r' % (
              s._fname(d), len(f.queue), [int(x[1][0]) for x in f.queue][:8]))
      else:
        res.count('quiescence_not_reached')
    report(s, v, events)
    nconn = sum(1 for e, _ in s.log if e.startswith('conn'))
    res.case(repr((sorted(v.items()), s.log)), nontrivial=(nconn >= 1 and s.counters['arrivals'] + s.counters['hp_arrivals'] >= 2))

  # exhaustive part: one destination
  nvar = 2 if cfg['tier'] == 'quick' else 3
  # the exhaustive part always covers the static and the dynamic router
  chosen = [next(v for v in vs if not v['dyn'] and v['hw'] and v['protocol'] == 'line' and v['batch'] > 1),
            next(v for v in vs if v['dyn'] and v['retries'] == 0)]
  chosen += [v for v in vs if v not in chosen][:max(0, nvar - 2)]
  for v in chosen:
    ns.transport_hw = apply_variant(ns.settings, v, 'consistent-hashing' if v['dyn'] else 'constant')
    for prefix in PREFIXES:
      # iterative deepening DFS by re-execution; prune at the first inapplicable event
      dead = set()
      for length in range(1, L + 1):
        for tail in itertools.product(alphabet, repeat=length):
          if any(tail[:k] in dead for k in range(1, length)):
            continue
          s, ok = run_sequence(ns, DESTS[:1], list(prefix) + list(tail), receivers=(2 if relay_oracle else 0))
          if not ok:
            dead.add(tail)
            continue
          if length == L or True:
            finish(s, v, tail)
    res.sample(dict(cfg=cfg['name'], variant=v, prefixes=len(PREFIXES), depth=L), cap=2)

  # random part: 1..3 destinations, long sequences
  nrand = 150 if cfg['tier'] == 'quick' else 800
  weights = dict(arrive=8, arrive_hp=1, conn_made=3, conn_lost=1.2, conn_failed=1.2, pause=1, resume=1.5, adv_defer=6, adv_next=2, adv_60=0.5, stop=0.15)
  if extra_weights:
    weights.update(extra_weights)
  names = list(weights)
  for k in range(nrand):
    v = r.choice(vs)
    nd = r.choice([1, 1, 2, 3]) if not extra_weights else r.choice([1, 2, 3, 3])
    router, rf = r.choice([('constant', 1), ('consistent-hashing', 1), ('consistent-hashing', 2)])
    ns.transport_hw = apply_variant(ns.settings, v, router, rf)
    n = r.randint(30, 200)
    w = dict(weights, stats=(1.5 if v.get('ratio') else 0.2))
    wn = list(w)
    evs = [(r.choices(wn, [w[x] for x in wn])[0], r.randrange(nd)) for _ in range(n)]
    from vlib import relayharness
    s = relayharness.Seq(ns, DESTS[:nd], receivers=(2 if relay_oracle else 0))
    for ev, i in evs:
      s.apply(ev, i)
      if s.violations:
        break
    v2 = dict(v, router=router, rf=rf, nd=nd)
    finish(s, v2, evs)
    if k < 2:
      res.sample(dict(cfg=cfg['name'], variant=v2, events=s.log[:25]), cap=4)


def finalize(merged, tier):
  c = merged['counters']
  out = []
  for k in ('sequences_executed', 'accepted', 'refused', 'reinjected', 'invariant_evaluations', 'pauses_from_inside_write'):
    if not c.get(k):
      out.append('monitor counter %s is zero' % k)
  return out


def classify(v):
  return None
