"""C18 — tagged series names normalise to one canonical form."""
import itertools

from vlib import gen

PROPERTY = 'C18'
LEVEL = 'exploration'
ALPHA = ['a', 'b', '.', '~', ';', '!', '^', '=', '{', '}', '"', '\\', ',']
RULE = ('case = (name, tag set) generated over the alphabet ' + repr(ALPHA) + '; every permutation of the tag list is '
        'spelled in carbon syntax and in OpenMetrics syntax (own escaping), each spelling is normalised by the real '
        'TaggedSeries.parse(x).path (raw x when the parser raises), accepted spellings must all agree, contain exactly '
        'the given tags, and re-normalise to themselves; invalid names must be stored/relayed raw by the real '
        'CacheFeedingProcessor / RelayProcessor; exhaustive for small sizes, random beyond; non-trivial = >=1 tag; '
        'distinct = distinct (name, tag set)')
EXHAUSTIVE = {'quick': True, 'thorough': True}
EXHAUSTIVE_OVER = ('all permutations of every generated tag list (<=4 tags); all (name, key, value) with name<=2, key<=1, '
                   'value<=2 symbols for single-tag sets (thorough: name<=2,key<=2,value<=2)')
ASSUMPTIONS = ['duplicate tag keys are excluded from "tag sets"',
               'a spelling the parser rejects is compared only through the raw-fallback clause (the parser may be '
               'stricter than the documented tag rules); accepted spellings must agree']


def configs(tier, seed):
  cfgs = []
  for i, first in enumerate(ALPHA):
    cfgs.append(dict(name='exh/%d' % i, mode='exhaustive', first=first))
  n = 4 if tier == 'quick' else 16
  for i in range(n):
    cfgs.append(dict(name='rand/%d' % i, mode='random', shard=i))
  return cfgs


class Recorder(object):
  def __init__(self):
    self.sent = []

  def sendDatapoint(self, metric, datapoint):
    self.sent.append(metric)


def run_config(cfg, res):
  from vlib import boot
  from vlib.refs import tags as reft
  ns = boot.boot('carbon-cache', {'TAG_RELAY_NORMALIZED': True, 'CACHE_WRITE_STRATEGY': 'naive'})
  from carbon.util import TaggedSeries
  import carbon.cache as cc
  import carbon.client as client
  feeder = cc.CacheFeedingProcessor()
  relayp = client.RelayProcessor()
  rec = Recorder()
  ns.state.client_manager = rec

  def N(x):
    try:
      return TaggedSeries.parse(x).path, True
    except Exception:
      return x, False

  def stored_as(x):
    cache = feeder.cache
    before = set(cache.keys())
    feeder.process(x, (1, 1.0))
    after = set(cache.keys())
    new = after - before
    got = list(new)[0] if new else None
    for k in list(cache.keys()):
      cache.pop(k)
    del rec.sent[:]
    relayp.process(x, (1, 1.0))
    relayed = rec.sent[-1] if rec.sent else None
    return got, relayed

  def check(name, pairs, deep):
    """pairs: list of (k, v) with distinct keys."""
    keys = [k for k, _ in pairs]
    valid = reft.valid_name(name) and all(reft.valid_tag(k, v) for k, v in pairs)
    accepted = {}
    nsp = 0
    for perm in itertools.permutations(pairs):
      for syntax, sp in (('carbon', reft.carbon_spelling(name, perm)), ('openmetrics', reft.openmetrics_spelling(name, perm))):
        if syntax == 'openmetrics' and not perm:
          continue
        if syntax == 'carbon' and sp[-2:] == '"}' and '{' in sp:
          # the documented dispatch rule makes this string an OpenMetrics path: it is not a carbon spelling of
          # (name, tags) at all, so it says nothing about this tag set
          res.count('ambiguous_carbon_spellings_skipped')
          continue
        nsp += 1
        n1, ok = N(sp)
        res.count('normalisations')
        if ok:
          accepted.setdefault(n1, (syntax, sp))
          n2, ok2 = N(n1)
          res.count('idempotence_evaluations')
          if n2 != n1:
            if syntax == 'openmetrics' and ';' in name:
              kind = 'om-metric-part-has-semicolon'
            elif syntax == 'carbon' and name[-2:] == '"}' and '{' in name:
              kind = 'carbon-metric-part-is-openmetrics-shaped'
            else:
              kind = syntax
            res.violation('idempotence/' + kind,
                          'N(%r)=%r but N(N(x))=%r' % (sp, n1, n2), dict(name=name, pairs=pairs, spelling=sp))
        else:
          res.count('rejected_spellings')
          if valid:
            res.count('rejected_spellings_of_valid_sets')
        if deep or not ok:
          st, rl = stored_as(sp)
          res.count('processor_evaluations')
          if st != n1 or rl != n1:
            res.violation('processor-name/%s' % ('accepted' if ok else 'raw-fallback'),
                          'spelling %r: N=%r but cache stored %r and relay enqueued %r' % (sp, n1, st, rl),
                          dict(spelling=sp))
    if valid and len(accepted) > 1:
      items = sorted(accepted.items())
      kinds = sorted(set(v[0] for v in accepted.values()))
      res.violation('spellings-disagree/%s/%s' % ('+'.join(kinds), 'name-tag' if 'name' in keys else 'plain'),
                    'tag set %r of %r normalises to %d different forms: %r' % (pairs, name, len(accepted), items[:4]),
                    dict(name=name, pairs=pairs, forms=items[:6]))
    if valid and accepted:
      # structural oracle: canonical form carries the (sanitised) name and exactly the given tags (a 'name' tag is overridden)
      for canon in accepted:
        head, tl = reft.split_canonical(canon)
        exp = sorted((k, v) for k, v in pairs if k != 'name')
        if head != name.lstrip('~') or sorted(tl) != exp:
          res.violation('canonical-content', 'canonical %r does not consist of name %r and tags %r' % (canon, name, exp),
                        dict(name=name, pairs=pairs, canon=canon))
    res.case((name, tuple(pairs)), nontrivial=bool(pairs))
    if pairs:
      res.sample(dict(name=name, tags=pairs, spellings=nsp, forms=sorted(accepted)[:2]), cap=3)

  def check_string(x, label):
    """Any carbon-syntax string, judged against the reference reading (history independent by construction)."""
    if reft.is_openmetrics_shaped(x):
      ref = reft.ref_parse_openmetrics(x)
      res.count('openmetrics_reference_evaluations')
      if ref == 'unspec':
        res.count('openmetrics_reading_unspecified')
        return
      if ref is None:
        res.count('openmetrics_rule_violating_paths')
    else:
      ref = reft.ref_parse_carbon(x)
    n1, ok = N(x)
    res.count('reference_parser_evaluations')
    if ref is None:
      if n1 != x:
        res.violation('raw-fallback/%s' % label, 'path %r violates the tag rules but normalises to %r instead of staying as received' % (x, n1), dict(path=x))
      else:
        st, rl_ = stored_as(x)
        if st != x or rl_ != x:
          res.violation('processor-name/raw-fallback', 'rule-violating path %r stored as %r, relayed as %r' % (x, st, rl_), dict(path=x))
      return
    metric, pairs = ref
    if len(set(k for k, _ in pairs)) != len(pairs):
      return        # duplicate keys: excluded from "tag sets"
    if not ok:
      res.count('rejected_spellings_of_valid_sets')
      return
    if ';' in metric or (metric[-2:] == '"}' and '{' in metric):
      return
    head, tl = reft.split_canonical(n1)
    exp = sorted((k, v) for k, v in pairs if k != 'name')
    if head != metric.lstrip('~') or sorted(tl) != exp:
      res.violation('canonical-content/%s' % label, 'path %r normalises to %r, which is not metric %r with tags %r' % (x, n1, metric, exp), dict(path=x))

  def rotations(name, pairs):
    """Orderings in which the metric is NOT written first: each is either a different series or a rule violation."""
    segs = [name] + ['%s=%s' % kv for kv in pairs]
    out = []
    for i in range(1, len(segs)):
      out.append(';'.join(segs[i:] + segs[:i]))
    if len(segs) >= 2:
      out.append(';'.join(reversed(segs)))
    return out

  A = ALPHA
  if cfg['mode'] == 'exhaustive':
    f = cfg['first']
    names = [f] + [f + c for c in A]
    maxk = 1 if cfg['tier'] == 'quick' else 2
    keysp = [''.join(t) for L in range(1, maxk + 1) for t in itertools.product(A, repeat=L)]
    valsp = [''.join(t) for L in (1, 2) for t in itertools.product(A, repeat=L)]
    for nm in names:
      check(nm, [], True)
      for k in keysp:
        for v in valsp:
          check(nm, [(k, v)], False)
          for x in rotations(nm, [(k, v)]):
            check_string(x, 'rotation')
  else:
    r = gen.rng(cfg['seed'], 'C18', cfg['shard'])
    ncases = 3000 if cfg['tier'] == 'quick' else 60000
    easy = ['a', 'b', '.', 'ab', 'a.b', 'name', 'c', 'd', 'k1', 'k2', 'v', 'x.y', 'a b', 'é', '1']
    for i in range(ncases):
      hostile = r.random() < 0.5
      def word(maxlen=3):
        if hostile and r.random() < 0.6:
          return ''.join(r.choice(A) for _ in range(r.randint(1, maxlen)))
        return r.choice(easy)
      nm = word()
      if r.random() < 0.15:
        nm = '~' * r.randint(1, 2) + nm
      if r.random() < 0.12:
        # a metric part that itself looks like a tagged carbon path / an OpenMetrics path
        nm = nm + r.choice([';%s=%s' % (word(2), word(2)), '{%s="%s"}' % (word(2), word(2)), ';' + word(2)])
      nt = r.choice([0, 1, 2, 2, 3, 3, 4])
      ks = []
      while len(ks) < nt:
        k = 'name' if r.random() < 0.12 else word(2)
        if k not in ks:
          ks.append(k)
      pairs = [(k, word()) for k in ks]
      check(nm, pairs, r.random() < 0.2)
      # the same segments in orders that do not start with the metric, right after the well-formed spellings were parsed
      for x in rotations(nm, pairs):
        check_string(x, 'rotation')
      check_string(reft.carbon_spelling(nm, pairs), 'plain')
      # OpenMetrics label lists in which any label may be structurally broken, in any position
      if i % 2 == 0:
        labels = []
        for _ in range(r.randint(1, 4)):
          k, v = word(2), word(2)
          c = r.random()
          if c < 0.55:
            labels.append('%s="%s"' % (k, reft.om_escape(v)))
          else:
            labels.append(r.choice(['%s=""' % k, '="%s"' % v, '%s=%s' % (k, v), '%s="%s"x' % (k, v), '%s="%s' % (k, v), k,
                                    '%s="%s' % (k, v) + '\\"', '', '%s="%s" ' % (k, v), '%s=\'%s\'' % (k, v), '%s="%s"' % (k, v)]))
        x = r.choice(easy[:8]) + '{' + ','.join(labels) + '}'
        if not reft.is_openmetrics_shaped(x):
          x = x[:-1] + ',z="z"}'
        check_string(x, 'openmetrics')


def classify(v):
  if v['sig'] == 'idempotence/om-metric-part-has-semicolon':
    return 'C18-a'
  return None
