"""C19 — new metrics get the first matching storage schema and aggregation policy."""
import itertools
import os

from vlib import gen

PROPERTY = 'C19'
LEVEL = 'exploration'
RULE = ('case = (generated storage-schemas.conf, storage-aggregation.conf, metric name); files are written into CONF_DIR, '
        'loaded by the daemon\'s own reloadStorageSchemas()/reloadAggregationSchemas(), the metric is stored and one real '
        'writeCachedDataPoints() pass runs against the in-memory backend; the recorded create(metric, retentions, xff, method) '
        'must equal an evaluator written from the documented formats; section sets of <=4 are used in every order; '
        'non-trivial = name matching >=2 sections or none; distinct = (files, name)')
EXHAUSTIVE = {'quick': True, 'thorough': True}
EXHAUSTIVE_OVER = 'all orders of every generated section set with <= 4 sections (quick: <= 3)'
ASSUMPTIONS = ['invalid retention strings are not generated (the daemon exits on them at load time)',
               '% is not generated in patterns (ConfigParser interpolation)']

PATS = ['^carbon\\.', '^servers\\.', '\\.count$', 'cpu', '.*', '^a\\.', 'web[0-9]+', '^$', 'x|y', '^stats', 'mem', '\\.']
RETS = ['60:1440', '10s:6h', '1m:7d', '10s:6h,1m:7d,10m:5y', '1:10', '60s:90d', '1h:2w', '15m:1y', '5m:12h,1h:1w', '30:2d', '7s:3m', '2d:10y', '1w:4w',
        # every suffix on either side of the colon, bare numbers on either side
        '10s:3600s', '5:600s', '1m:86400s', '1s:30s', '2m:7200s,1h:52w', '1s:1m', '1:1m', '60:3600s', '1d:1y', '1w:1y', '1y:10y', '3:7', '90:2h',
        ' 10s:1d , 1m:30d ', '1h:1d']
NAMES = ['carbon.agents.h.cpuUsage', 'servers.web1.cpu.user', 'a.b.count', 'stats.x', 'nomatch', 'servers.db.mem', 'x', 'web22.count',
         'a.cpu.mem.count', 'y.z', 'plain']
METHODS = ['average', 'sum', 'last', 'max', 'min']


def configs(tier, seed):
  n = 4 if tier == 'quick' else 12
  return [dict(name='shard%d' % s, shard=s) for s in range(n)]


def gen_sections(r, kind):
  secs = []
  for i in range(r.randint(1, 6)):
    body = []
    if r.random() < 0.88:
      body.append('pattern = %s' % r.choice(PATS))
    if kind == 'schema':
      if r.random() < 0.9:
        body.append('%s = %s' % (r.choice(['retentions', 'RETENTIONS', 'retentions']), r.choice(RETS)))
    else:
      if r.random() < 0.8:
        body.append('%s = %s' % (r.choice(['xFilesFactor', 'xfilesfactor']), r.choice(['0', '0.5', '1', '0.1', '0.99'])))
      if r.random() < 0.8:
        body.append('%s = %s' % (r.choice(['aggregationMethod', 'aggregationmethod']), r.choice(METHODS)))
    r.shuffle(body)
    secs.append('[%s_%d]\n%s\n' % (kind, i, '\n'.join(body)))
  return secs


def run_config(cfg, res):
  from vlib import boot, memdb
  from vlib.refs import schemas as refs
  ns = boot.boot('carbon-cache', {'MAX_UPDATES_PER_SECOND': 'inf', 'MAX_CREATES_PER_MINUTE': 'inf', 'CACHE_WRITE_STRATEGY': 'sorted'})
  import carbon.writer as writer
  import carbon.cache as cc
  from carbon import state
  spath = os.path.join(ns.conf_dir, 'storage-schemas.conf')
  apath = os.path.join(ns.conf_dir, 'storage-aggregation.conf')
  r = gen.rng(cfg['seed'], 'C19', cfg['name'])
  cache = cc.MetricCache()
  maxperm = 3 if cfg['tier'] == 'quick' else 4
  mt_last = [1600000000]

  def one(stext, atext):
    with open(spath, 'w') as f:
      f.write(stext)
    if atext is None:
      if os.path.exists(apath):
        os.unlink(apath)
    else:
      with open(apath, 'w') as f:
        f.write(atext)
    # configuration management restores files with arbitrary mtimes (rollback with cp -p, rsync -t, same tick):
    # what counts is the content at reload time
    for pth in (spath, apath):
      if os.path.exists(pth) and r.random() < 0.6:
        t = r.choice([1000000000, 1500000000, mt_last[0], mt_last[0] - 3600, mt_last[0] + 5, 1])
        os.utime(pth, (t, t))
        mt_last[0] = t
        res.count('files_with_non_increasing_mtime')
    writer.reloadStorageSchemas()
    writer.reloadAggregationSchemas()
    rs = refs.load_schemas(stext)
    ra = refs.load_aggregation(atext or '')
    state.database.files.clear()
    memdb.reset()
    names = NAMES + [gen.metric_name(r, nonascii=False) for _ in range(3)]
    for nm in names:
      cache.store(nm, (1000, 1.0))
    errs0 = len(ns.tripwires.log_errors)
    writer.writeCachedDataPoints()
    creates = {e['metric']: e['args'] for e in memdb.CALL_LOG if e['op'] == 'create'}
    for nm in names:
      res.count('create_evaluations')
      exp_ret = refs.retentions_for(rs, nm)
      exp_agg = refs.aggregation_for(ra, nm)
      nmatch = sum(1 for _, rx, _ in rs if rx.search(nm))
      res.case((stext, atext, nm), nontrivial=(nmatch != 1))
      wit = dict(schemas=stext, aggregation=atext, metric=nm)
      if nm not in creates:
        res.violation('no-create', 'metric %r was not created; log errors: %r' % (nm, ns.tripwires.log_errors[errs0:][:2]), wit)
        continue
      ret, xff, meth = creates[nm]
      if [tuple(x) for x in ret] != [tuple(x) for x in exp_ret]:
        order = 'first-match' if nmatch >= 2 else ('default' if nmatch == 0 else 'retention-parse')
        res.violation('retentions/%s' % order, 'metric %r created with retentions %r, schema file says %r\n%s' % (nm, ret, exp_ret, stext), wit)
      if (xff, meth) != tuple(exp_agg):
        res.violation('aggregation', 'metric %r created with (xff, method)=%r, aggregation file says %r\n%s' % (nm, (xff, meth), exp_agg, atext), wit)
    res.sample(dict(schemas=stext, aggregation=atext), cap=2)

  for case in range(40 if cfg['tier'] == 'quick' else 600):
    ssecs = gen_sections(r, 'schema')
    asecs = gen_sections(r, 'agg') if r.random() < 0.85 else None
    orders = [ssecs]
    if len(ssecs) <= maxperm:
      orders = [list(p) for p in itertools.permutations(ssecs)]
      res.count('section_sets_fully_permuted')
    else:
      orders = [ssecs, list(reversed(ssecs))]
    for o in orders:
      atext = None
      if asecs is not None:
        a = list(asecs)
        r.shuffle(a)
        atext = '\n'.join(a)
      one('\n'.join(o), atext)


def finalize(merged, tier):
  c = merged['counters']
  return [] if c.get('create_evaluations') and c.get('section_sets_fully_permuted') else ['no creates or no permuted sets observed']


def classify(v):
  return None
