"""C19 — new metrics get the first matching storage schema and aggregation policy."""
import itertools
import os

from vlib import gen

PROPERTY = 'C19'
LEVEL = 'exploration'
RULE = ('case = (generated storage-schemas.conf, storage-aggregation.conf, metric name); files are written into CONF_DIR, '
        'loaded by the daemon\'s own reloadStorageSchemas()/reloadAggregationSchemas(), the metric is stored and one real '
        'writeCachedDataPoints() pass runs against the in-memory backend; the recorded create(metric, retentions, xff, method) '
        'must equal an evaluator written from the documented formats; section sets of <=4 are used in every order; '
        'non-trivial = name matching >=2 sections or none; distinct = (files, name)')
RULE_MORE = (' Also: empty pattern values, zero-width and Unicode-dependent patterns, values containing ; and #, tagged and non-ASCII names, sections named DEFAULT (modelled as ConfigParser documents them).')
RULE_MORE = RULE_MORE + ' Round 11: names with empty path elements and patterns about them.'
RULE_MORE = RULE_MORE + ' Round 12: series first seen after a completed reload are created under the new files (or, dropped as droppedCreates, not at all).'
RULE = RULE + RULE_MORE
EXHAUSTIVE = {'quick': True, 'thorough': True}
EXHAUSTIVE_OVER = 'all orders of every generated section set with <= 4 sections (quick: <= 3)'
ASSUMPTIONS = ['invalid retention strings are not generated (the daemon exits on them at load time)',
               '% is not generated in patterns (ConfigParser interpolation)']

PATS = ['^carbon\\.', '^servers\\.', '\\.count$', 'cpu', '.*', '^a\\.', 'web[0-9]+', '^$', 'x|y', '^stats', 'mem', '\\.',
        # patterns for tagged series and values containing the characters INI dialects use for comments
        # character classes that depend on Unicode awareness
        '^servers\\.\\w+\\.cpu', '\\.shard\\d+\\.', '^\\w+\\.count$', '\\bload\\b', '^[^\\W\\d]+\\.',
        # anchored and unanchored branches in one pattern
        '^stats\\.|\\.count$', '^internal\\.|\\.user$', '^a\\.|cpu', '(^servers|mem)', '^(?:x|y)|load$',
        # patterns that match without consuming a character
        '^', '$', '^(?!carbon\\.)', '^(?!.*\\.count$)', '\\b', 'x*', '(?=.*cpu)', '',
        '^\\.', '^\\.\\.', '\\.$', '^[^.]+$', '\\.\\.',
        ';env=prod(;|$)', ';type=counter', '^app\\..*;dc=', 'x ;y', 'a #b', '#hash', '[;#]', 'cpu ; not a comment']
RETS = ['60:1440', '10s:6h', '1m:7d', '10s:6h,1m:7d,10m:5y', '1:10', '60s:90d', '1h:2w', '15m:1y', '5m:12h,1h:1w', '30:2d', '7s:3m', '2d:10y', '1w:4w',
        # every suffix on either side of the colon, bare numbers on either side
        '10s:3600s', '5:600s', '1m:86400s', '1s:30s', '2m:7200s,1h:52w', '1s:1m', '1:1m', '60:3600s', '1d:1y', '1w:1y', '1y:10y', '3:7', '90:2h',
        ' 10s:1d , 1m:30d ', '1h:1d']
NAMES = ['carbon.agents.h.cpuUsage', 'servers.web1.cpu.user', 'a.b.count', 'stats.x', 'nomatch', 'servers.db.mem', 'x', 'web22.count',
         'a.cpu.mem.count', 'y.z', 'plain', 'app.web.hits;env=prod', 'app.web.hits;dc=a;env=prod', 'q;type=counter', 'x#hash', 'cpu;env=stage',
         # names with empty path elements (an empty prefix in the sender's configuration), matched as received
         '.servers.web1.cpu.user', '..a.b.count', '.carbon.agents.h.cpuUsage', 'servers..web1', 'a.b.count.', '.stats', '.x',
         'servers.m\u00fcnchen.cpu.user', 'db.shard\u0663.rows', 'requ\u00eates.count', '\u00e9t\u00e9.load', 'servers.web1.load']
METHODS = ['average', 'sum', 'last', 'max', 'min']


def configs(tier, seed):
  n = 4 if tier == 'quick' else 12
  cfgs = [dict(name='shard%d' % s, shard=s) for s in range(n)]
  # the daemon reloads its schema files from the reactor thread every minute while the writer thread may be creating
  # a metric: whatever the interleaving, the file must be created under the old or under the new configuration
  for s in range(2 if tier == 'quick' else 6):
    cfgs.append(dict(name='reload-race/%d' % s, shard=s, mode='race'))
  return cfgs


def gen_sections(r, kind):
  secs = []
  for i in range(r.randint(1, 6)):
    body = []
    c = r.random()
    if c < 0.84:
      body.append('pattern = %s' % r.choice(PATS))
    elif c < 0.90:
      body.append(r.choice(['pattern =', 'pattern = ', 'pattern:']))     # key present, value empty: the section lacks a pattern
    if kind == 'schema':
      if r.random() < 0.9:
        body.append('%s = %s' % (r.choice(['retentions', 'RETENTIONS', 'retentions']), r.choice(RETS)))
    else:
      if r.random() < 0.8:
        body.append('%s = %s' % (r.choice(['xFilesFactor', 'xfilesfactor']), r.choice(['0', '0.5', '1', '0.1', '0.99'])))
      if r.random() < 0.8:
        body.append('%s = %s' % (r.choice(['aggregationMethod', 'aggregationmethod']), r.choice(METHODS)))
    r.shuffle(body)
    # section names are free text, including the one Python's ConfigParser treats specially
    sname = '%s_%d' % (kind, i) if r.random() < 0.85 else r.choice(['DEFAULT', 'default', 'Default', 'general', 'DEFAULT_%d' % i])
    if any(x.startswith('[%s]' % sname) for x in secs):
      sname = '%s_%d' % (kind, i)
    secs.append('[%s]\n%s\n' % (sname, '\n'.join(body)))
  return secs


def run_race(cfg, res):
  from vlib import boot, cachesim, sched as S
  from vlib.refs import schemas as refs
  ns = boot.boot('carbon-cache', {'MAX_UPDATES_PER_SECOND': 'inf', 'MAX_CREATES_PER_MINUTE': 'inf', 'CACHE_WRITE_STRATEGY': 'sorted'})
  world = cachesim.World(ns, trace_files=('writer.py', 'storage.py'))
  import carbon.writer as writer
  spath = os.path.join(ns.conf_dir, 'storage-schemas.conf')
  apath = os.path.join(ns.conf_dir, 'storage-aggregation.conf')
  r = gen.rng(cfg['seed'], 'C19race', cfg['name'])
  names = ['servers.web1.cpu.user', 'a.b.count', 'stats.x']
  for case in range(3 if cfg['tier'] == 'quick' else 10):
    old_s, new_s = gen_sections(r, 'schema'), gen_sections(r, 'schema')
    old_a, new_a = gen_sections(r, 'agg'), gen_sections(r, 'agg')
    # a non-matching section in front, so that the loop is part-way through the list when the reload lands
    front = '[zz_front]\npattern = ^nothing-matches-this$\nretentions = 1:1\n'
    olds, news = front + '\n'.join(old_s), '\n'.join(new_s) if r.random() < 0.5 else front + front.replace('zz_front', 'zz2') + '\n'.join(new_s)
    olda, newa = '\n'.join(old_a), '\n'.join(new_a)
    ro, rn = refs.load_schemas(olds), refs.load_schemas(news)
    ao, an = refs.load_aggregation(olda), refs.load_aggregation(newa)

    def write(pth, text):
      with open(pth, 'w') as f:
        f.write(text)

    def pre(h):
      write(spath, olds)
      write(apath, olda)
      writer.reloadStorageSchemas()
      writer.reloadAggregationSchemas()

    def reload_now(h):
      write(spath, news)
      write(apath, newa)
      writer.reloadStorageSchemas()          # what the two LoopingCalls do on the reactor thread
      writer.reloadAggregationSchemas()
    # series first seen after both reloads have completed: whatever the writer is in the middle of, they are created under
    # the new files
    late = ['servers.late1.cpu.user', 'late.b.count', 'stats.late']
    ops = [('store', nm, 999900) for nm in names] + [('call', reload_now)] + [('store', nm, 999900) for nm in late] + [('sleep', 3.0), ('stop',)]
    seen = set()

    def one(policy, desc):
      h = world.run(ops, ('loop',), policy=policy, timeout=60, drain_rest=False, pre=pre)
      res.count('race_schedules_executed')
      if h.sched_error is not None:
        res.inconc('%s: %s' % (type(h.sched_error).__name__, h.sched_error))
        return h
      creates = {e['metric']: e['args'] for e in h.backend if e['op'] == 'create'}
      for nm in names:
        res.count('race_create_evaluations')
        allowed_r = [refs.retentions_for(ro, nm), refs.retentions_for(rn, nm)]
        allowed_a = [tuple(refs.aggregation_for(ao, nm)), tuple(refs.aggregation_for(an, nm))]
        wit = dict(old=olds, new=news, metric=nm, deviations=h.deviations)
        if nm not in creates:
          res.violation('race/no-create', 'metric %r was not created while the schemas were being reloaded (log errors %r) [%s dev=%r]' % (nm, h.log_errors[:2], desc, h.deviations), wit)
          continue
        ret, xff, meth = creates[nm]
        if [tuple(x) for x in ret] not in [[tuple(x) for x in a] for a in allowed_r]:
          res.violation('race/retentions-from-neither-file', 'metric %r created with retentions %r; old file says %r, new file says %r [%s dev=%r]' % (
            nm, ret, allowed_r[0], allowed_r[1], desc, h.deviations), wit)
        if (xff, meth) not in allowed_a:
          res.violation('race/aggregation-from-neither-file', 'metric %r created with %r; old file says %r, new file says %r [%s dev=%r]' % (
            nm, (xff, meth), allowed_a[0], allowed_a[1], desc, h.deviations), wit)
      for nm in late:
        res.count('race_create_evaluations')
        if nm not in creates:
          # its only datapoint was drained between the writer's create loop and the drain of the same round: carbon drops
          # that and counts it (droppedCreates) - nothing was created under any file
          res.count('late_series_dropped_before_their_create')
          continue
        ret, xff, meth = creates[nm]
        want_r, want_a = refs.retentions_for(rn, nm), tuple(refs.aggregation_for(an, nm))
        if [tuple(x) for x in ret] != [tuple(x) for x in want_r] or (xff, meth) != want_a:
          res.violation('race/created-under-replaced-files', 'metric %r, first seen after both reloads had completed, was created with %r / %r; the files '
                        'in force say %r / %r [%s dev=%r]' % (nm, ret, (xff, meth), want_r, want_a, desc, h.deviations),
                        dict(old=olds, new=news, metric=nm, deviations=h.deviations))
      key = (case, h.trace_hash)
      if key not in seen:
        seen.add(key)
        res.case(hash((cfg['name'],) + key), nontrivial=h.switches >= 2)
      else:
        res.evaluations += 1
      return h
    h0 = one(S.DeviationPolicy({}), 'baseline')
    one(S.DeviationPolicy({0: 1}), 'mirror')
    for d in range(0, h0.decisions + 2):
      hi = one(S.DeviationPolicy({d: 1}), 'preempt@%d' % d)
      for j in sorted(set(r.randrange(d + 1, hi.decisions + 2) for _ in range(2))) if hi.decisions + 1 > d else []:
        one(S.DeviationPolicy({d: 1, j: 1}), 'preempt@%d,%d' % (d, j))
    res.sample(dict(mode='reload-race', old=olds, new=news), cap=1)


def run_config(cfg, res):
  if cfg.get('mode') == 'race':
    return run_race(cfg, res)
  from vlib import boot, memdb
  from vlib.refs import schemas as refs
  ns = boot.boot('carbon-cache', {'MAX_UPDATES_PER_SECOND': 'inf', 'MAX_CREATES_PER_MINUTE': 'inf', 'CACHE_WRITE_STRATEGY': 'sorted'})
  import carbon.writer as writer
  import carbon.cache as cc
  from carbon import state
  spath = os.path.join(ns.conf_dir, 'storage-schemas.conf')
  apath = os.path.join(ns.conf_dir, 'storage-aggregation.conf')
  r = gen.rng(cfg['seed'], 'C19', cfg['name'])
  cache = cc.MetricCache()
  maxperm = 3 if cfg['tier'] == 'quick' else 4
  mt_last = [1600000000]

  def one(stext, atext):
    with open(spath, 'w') as f:
      f.write(stext)
    if atext is None:
      if os.path.exists(apath):
        os.unlink(apath)
    else:
      with open(apath, 'w') as f:
        f.write(atext)
    # configuration management restores files with arbitrary mtimes (rollback with cp -p, rsync -t, same tick):
    # what counts is the content at reload time
    for pth in (spath, apath):
      if os.path.exists(pth) and r.random() < 0.6:
        t = r.choice([1000000000, 1500000000, mt_last[0], mt_last[0] - 3600, mt_last[0] + 5, 1])
        os.utime(pth, (t, t))
        mt_last[0] = t
        res.count('files_with_non_increasing_mtime')
    writer.reloadStorageSchemas()
    writer.reloadAggregationSchemas()
    rs = refs.load_schemas(stext)
    ra = refs.load_aggregation(atext or '')
    state.database.files.clear()
    memdb.reset()
    names = NAMES + [gen.metric_name(r, nonascii=False) for _ in range(3)]
    for nm in names:
      cache.store(nm, (1000, 1.0))
    errs0 = len(ns.tripwires.log_errors)
    writer.writeCachedDataPoints()
    creates = {e['metric']: e['args'] for e in memdb.CALL_LOG if e['op'] == 'create'}
    for nm in names:
      res.count('create_evaluations')
      exp_ret = refs.retentions_for(rs, nm)
      exp_agg = refs.aggregation_for(ra, nm)
      nmatch = sum(1 for _, rx, _ in rs if rx.search(nm))
      res.case((stext, atext, nm), nontrivial=(nmatch != 1))
      wit = dict(schemas=stext, aggregation=atext, metric=nm)
      if nm not in creates:
        res.violation('no-create', 'metric %r was not created; log errors: %r' % (nm, ns.tripwires.log_errors[errs0:][:2]), wit)
        continue
      ret, xff, meth = creates[nm]
      if [tuple(x) for x in ret] != [tuple(x) for x in exp_ret]:
        order = 'first-match' if nmatch >= 2 else ('default' if nmatch == 0 else 'retention-parse')
        res.violation('retentions/%s' % order, 'metric %r created with retentions %r, schema file says %r\n%s' % (nm, ret, exp_ret, stext), wit)
      if (xff, meth) != tuple(exp_agg):
        res.violation('aggregation', 'metric %r created with (xff, method)=%r, aggregation file says %r\n%s' % (nm, (xff, meth), exp_agg, atext), wit)
    res.sample(dict(schemas=stext, aggregation=atext), cap=2)

  for case in range(40 if cfg['tier'] == 'quick' else 600):
    ssecs = gen_sections(r, 'schema')
    asecs = gen_sections(r, 'agg') if r.random() < 0.85 else None
    orders = [ssecs]
    if len(ssecs) <= maxperm:
      orders = [list(p) for p in itertools.permutations(ssecs)]
      res.count('section_sets_fully_permuted')
    else:
      orders = [ssecs, list(reversed(ssecs))]
    for o in orders:
      atext = None
      if asecs is not None:
        a = list(asecs)
        r.shuffle(a)
        atext = '\n'.join(a)
      one('\n'.join(o), atext)


def finalize(merged, tier):
  c = merged['counters']
  return [] if c.get('create_evaluations') and c.get('section_sets_fully_permuted') and c.get('race_create_evaluations') else ['no creates, no permuted sets or no reload-race evaluations observed']


def classify(v):
  return None
