"""C01 — well-formed datapoints are ingested exactly, however the byte stream is cut."""
from vlib import gen

PROPERTY = 'C01'
LEVEL = 'exploration'
RULE = ('case = (listener, generated datapoint sequence, batching, encoding choices); the encoded stream is fed to a fresh '
        'real protocol instance under: whole, byte-at-a-time, EVERY single cut position, every pair of cuts (streams <= 48 '
        'bytes), random k-cuts; the recorder on events.metricReceived must equal the generated sequence exactly '
        '(names, numeric timestamps, bit-identical values); non-trivial = stream with >=2 datapoints or a non-ASCII name; '
        'distinct = distinct streams')
RULE_MORE = (' Further families: python2-style pickle frames (8-bit names), names up to 16 kB, frames of 1000-12000 datapoints with calls deferred through reactor.callLater run between reads, METRIC_CLIENT_IDLE_TIMEOUT with time passing on a virtual clock (UDP port stand-in), the sender closing in the middle of the stream.')
RULE_MORE = RULE_MORE + ' Rounds 10-11: a line beyond the 16384-byte limit between well-formed ones; datagrams of exactly 512..65507 bytes with and without a final terminator; names with invisible characters (U+FEFF ...) in front, inside and at the end.'
RULE_MORE = RULE_MORE + ' Round 12: several clients of one listener at the same time, one of them going away mid-stream.'
RULE = RULE + RULE_MORE
EXHAUSTIVE = {'quick': True, 'thorough': True}
EXHAUSTIVE_OVER = 'single cut positions of every generated TCP stream; cut pairs of streams <= 48 bytes'
ASSUMPTIONS = ['protobuf listener not runnable (google.protobuf absent)',
               'integers are compared after float() (the listeners coerce by design); integer values are generated exactly representable',
               'timestamp -1 / negative timestamps are left to C12', 'streams <= 4 KiB, lines < 16384 bytes']


def configs(tier, seed):
  n = 8 if tier == 'quick' else 16
  cfgs = []
  for proto in ('line', 'pickle', 'udp'):
    for s in range(n if proto != 'udp' else max(2, n // 4)):
      # every other shard runs with METRIC_CLIENT_IDLE_TIMEOUT set (idle clients are dropped after 30 s) and time passing
      # between the segments / datagrams: less than the timeout on a connection, any amount between datagrams
      cfgs.append(dict(name='%s/%d' % (proto, s), proto=proto, shard=s, idle=(30 if s % 2 else None)))
  return cfgs


def gen_name(r):
  c = r.random()
  if c < 0.3:
    return gen.metric_name(r, nonascii=False)
  if c < 0.8:
    return gen.metric_name(r, nonascii=True, punct=r.random() < 0.5)
  if c < 0.9:
    return r.choice(['é', '\U0001F600.\U0001F600', 'a' * 200, '中.文', 'x\x00y', 'a;b=c', 'a{b="c"}', '~', '́a', 'ｆｕｌｌ'])
  return r.choice(gen.ODD_NAMES)


def gen_ts_text(r):
  from vlib.refs import codec
  c = r.random()
  if c < 0.5:
    t = r.randrange(0, 2 ** 32)
    return r.choice(['%d' % t, '%d.0' % t, '%d' % t])
  if c < 0.7:
    return codec.spell_float(r.uniform(0, 2 ** 32), r)
  if c < 0.8:
    return r.choice(['0', '0.0', '1e9', '1.5e9', '1e12', '1700000000.123', '4294967295', '0.5', '1E9', '+1700000000'])
  return codec.spell_float(float(r.randrange(0, 10 ** 12)) + r.choice([0.0, 0.25, 0.999]), r)


def gen_value_text(r):
  from vlib.refs import codec
  v = gen.value(r)
  if isinstance(v, int):
    if abs(v) >= 2 ** 53:
      v = float(v)
      return repr(v)
    return r.choice(['%d' % v, codec.spell_float(float(v), r)])
  return codec.spell_float(v, r)


def run_config(cfg, res):
  from vlib import boot, proto
  from vlib.refs import codec
  ns = boot.boot('carbon-cache', {'METRIC_CLIENT_IDLE_TIMEOUT': cfg['idle']} if cfg.get('idle') else {})
  import carbon.protocols as P
  rec = proto.install_recorder()
  r = gen.rng(cfg['seed'], 'C01', cfg['name'])
  clk = None
  if cfg.get('idle'):
    from twisted.internet.task import Clock
    clk = Clock()
    if ns.settings.METRIC_CLIENT_IDLE_TIMEOUT != cfg['idle']:
      res.inconc('METRIC_CLIENT_IDLE_TIMEOUT not applied by the config path')
  ncases = (60 if cfg['tier'] == 'quick' else 600)

  def report(kind, why, stream, exp, segs_desc, got):
    res.violation('%s/%s' % (cfg['proto'], kind), '%s under segmentation %s: %s; stream=%r' % (cfg['proto'], segs_desc, why, stream[:200]),
                  dict(stream=stream.hex(), expected=exp, segmentation=segs_desc, got=got[:10]))

  def run_tcp(cls, stream, exp, prefix_positions=()):
    n = len(stream)

    def one(segs, desc):
      res.count('segmentations_executed')
      # the idle timer restarts with every datapoint, not with every byte: the whole session stays under the timeout
      o = proto.tcp_session(cls, segs, rec, clock=clk, gaps=[25.0 / max(1, len(segs))] if clk is not None else None)
      if clk is not None:
        res.count('sessions_with_idle_timeout_and_time_passing')
      if o['exc'] is not None:
        report('exception', 'exception %r escaped dataReceived' % o['exc'], stream, exp, desc, o['got'])
        return False
      if o['disconnecting']:
        report('disconnected', 'connection closed', stream, exp, desc, o['got'])
        return False
      why = proto.same_points(o['got'], exp)
      if why:
        report('mismatch/' + ('single-cut' if desc.startswith('cut@') else desc.split('@')[0]), why, stream, exp, desc, o['got'])
        return False
      return True

    if not one([stream], 'whole'):
      return
    if not one([stream[i:i + 1] for i in range(n)], 'bytewise'):
      return
    for i in range(1, n):
      if (stream[i] & 0xC0) == 0x80:
        res.count('cuts_inside_utf8_char')
      if i in prefix_positions:
        res.count('cuts_inside_length_prefix')
      if not one([stream[:i], stream[i:]], 'cut@%d' % i):
        return
    if n <= 48:
      for i in range(1, n):
        for j in range(i + 1, n):
          if not one([stream[:i], stream[i:j], stream[j:]], 'cut2@%d,%d' % (i, j)):
            return
    # flow control: the receivers are paused while a segment is being decoded (cache or relay queue full) and resumed
    # afterwards; everything that had already arrived must still be delivered although no further byte follows
    if len(exp) >= 2:
      from carbon import events as _ev
      for k in range(3):
        at = r.randrange(1, len(exp) + 1)
        segs = proto.cut(stream, sorted(set(r.randrange(1, n) for _ in range(r.choice([0, 1, 3]))))) if n > 2 else [stream]
        state_ = dict(n=0, paused=False)

        def pauser(metric, datapoint):
          state_['n'] += 1
          if state_['n'] == at and not state_['paused']:
            state_['paused'] = True
            _ev.pauseReceivingMetrics()
        _ev.metricReceived.addHandler(pauser)
        p1 = cls()
        from twisted.internet.testing import StringTransport
        p1.makeConnection(StringTransport())
        rec.take()
        exc = None
        try:
          for sg in segs:
            p1.dataReceived(sg)      # bytes the kernel had already handed over
            if state_['paused']:
              _ev.resumeReceivingMetrics()
              state_['paused'] = False
        except Exception as e:
          exc = e
        finally:
          _ev.metricReceived.removeHandler(pauser)
          if state_['paused']:
            _ev.resumeReceivingMetrics()
        got = rec.take()
        proto.close(p1)
        res.count('flow_control_pause_sessions')
        why = ('exception %r' % exc) if exc else proto.same_points(got, exp)
        if why:
          report('mismatch/pause-during-segment', why, stream, exp, 'pause at datapoint %d of %d, %d segments' % (at, len(exp), len(segs)), got)
          return
    # the sender goes away in the middle of the stream (orderly close): what had arrived completely is ingested, the
    # unfinished rest (half a line, half a frame) is not a datapoint
    if n > 3:
      ends = []          # (end offset in the stream, number of datapoints complete at that offset)
      if cls is P.MetricLineReceiver:
        pos, cnt = 0, 0
        for ln in stream.split(b'\n')[:-1]:
          pos += len(ln) + 1
          if ln.strip():
            cnt += 1
          ends.append((pos, cnt))
      else:
        import pickle as _pickle
        import struct as _struct
        pos, cnt = 0, 0
        while pos + 4 <= n:
          ln_ = _struct.unpack('!I', stream[pos:pos + 4])[0]
          try:
            cnt += len(_pickle.loads(stream[pos + 4:pos + 4 + ln_], encoding='utf-8'))
          except Exception:
            break
          pos += 4 + ln_
          ends.append((pos, cnt))
      if ends and ends[-1][1] == len(exp):
        for k in sorted(set(r.randrange(1, n) for _ in range(6))):
          done = max([c for e, c in ends if e <= k] or [0])
          part = stream[:k]
          segs = proto.cut(part, sorted(set(r.randrange(1, k) for _ in range(r.choice([0, 1, 3]))))) if k > 2 else [part]
          o = proto.tcp_session(cls, segs, rec)
          res.count('sessions_cut_short_by_the_sender')
          why = ('exception %r' % o['exc']) if o['exc'] else proto.same_points(o['got'], exp[:done])
          if why:
            report('mismatch/sender-closed-mid-stream', why, stream, exp[:done], 'first %d of %d bytes, then an orderly close' % (k, n), o['got'])
            return
    # two connections fed alternately with differently cut copies of the stream: per-connection state must not mix
    if n > 4:
      from twisted.internet.testing import StringTransport
      for k in range(3):
        pa, pb = cls(), cls()
        pa.makeConnection(StringTransport())
        pb.makeConnection(StringTransport())
        ca = proto.cut(stream, sorted(set(r.randrange(1, n) for _ in range(4))))
        cb = proto.cut(stream, sorted(set(r.randrange(1, n) for _ in range(4))))
        rec.take()
        gota, gotb = [], []
        exc = None
        try:
          for i in range(max(len(ca), len(cb))):
            if i < len(ca):
              pa.dataReceived(ca[i])
              gota.extend(rec.take())
            if i < len(cb):
              pb.dataReceived(cb[i])
              gotb.extend(rec.take())
        except Exception as e:
          exc = e
        proto.close(pa)
        proto.close(pb)
        res.count('interleaved_connection_pairs')
        why = ('exception %r' % exc) if exc else (proto.same_points(gota, exp) or proto.same_points(gotb, exp))
        if why:
          report('mismatch/interleaved-connections', why, stream, exp, 'two connections %r / %r' % ([len(x) for x in ca], [len(x) for x in cb]), gota)
          return
    for k in range(30 if cfg['tier'] == 'quick' else 50):
      m = r.randint(2, min(12, max(2, n - 1)))
      pos = sorted(set(r.randrange(1, n) for _ in range(m))) if n > 1 else []
      if not one(proto.cut(stream, pos), 'random@%s' % pos):
        return

  # long names: a datapoint line may be up to 16384 bytes (LineOnlyReceiver.MAX_LENGTH), a pickle frame up to 1 MiB
  if cfg['proto'] in ('line', 'pickle') and cfg['shard'] == 0:
    for L in ((300, 5000, 16000) if cfg['tier'] == 'quick' else (300, 1000, 5000, 9000, 16000, 16300)):
      for alpha in ('abcxyz.', 'é中.a'):
        name = ''.join(r.choice(alpha) for _ in range(L)).strip('.') or 'a'
        while len(name.encode('utf-8')) > L:
          name = name[:-1]
        name = name.replace('..', '.a')
        pts = [('short.before', '10', '1.5'), (name, '1700000000', '2.5'), (name + 'x'[:1 if L < 16000 else 0], '1700000001', '-3'), ('short.after', '20', '4')]
        exp = [(n, (float(t), float(v))) for n, t, v in pts]
        if cfg['proto'] == 'line':
          stream = b''.join(codec.encode_line(n, v, t, None, b'\n') for n, t, v in pts)
          cls = P.MetricLineReceiver
        else:
          stream = codec.encode_pickle_frame([(n, (float(t), float(v))) for n, t, v in pts[:2]], protocol=2) + \
            codec.encode_pickle_frame([(n, (float(t), float(v))) for n, t, v in pts[2:]], protocol=r.randrange(0, 6))
          cls = P.MetricPickleReceiver
        n_ = len(stream)
        for segs, desc in [([stream], 'whole'), ([stream[i:i + 1000] for i in range(0, n_, 1000)], 'chunks1000'), ([stream[i:i + 7] for i in range(0, n_, 7)], 'chunks7')] + \
                          [(proto.cut(stream, sorted(set(r.randrange(1, n_) for _ in range(6)))), 'random6') for _ in range(10)]:
          o = proto.tcp_session(cls, segs, rec)
          res.count('segmentations_executed')
          res.count('long_name_sessions')
          why = ('exception %r' % o['exc']) if o['exc'] else ('connection closed' if o['disconnecting'] else proto.same_points(o['got'], exp))
          if why:
            report('mismatch/long-name', why, stream, exp, '%s, name of %d bytes' % (desc, len(name.encode('utf-8'))), o['got'])
            break
        res.case(('long', cfg['proto'], L, alpha), True)
  # a line beyond the 16384-byte limit between well-formed ones: the listener may drop the connection there (then nothing
  # more arrives), or it may skip the line - but then every later datapoint of the stream arrives, however the stream is cut
  if cfg['proto'] == 'line' and cfg['shard'] in (0, 1):
    for L in (16390, 20000, 40000):
      pts_b = [('short.before%d' % i, '1%d' % i, '1.5') for i in range(2)]
      pts_a = [('short.after%d' % i, '2%d' % i, '-2') for i in range(3)]
      stream = b''.join(codec.encode_line(n, v, t, None, b'\n') for n, t, v in pts_b) + (b'x' * L + b' 1 1\n') + \
        b''.join(codec.encode_line(n, v, t, None, b'\n') for n, t, v in pts_a)
      exp_b = [(n, (float(t), float(v))) for n, t, v in pts_b]
      exp_a = [(n, (float(t), float(v))) for n, t, v in pts_a]
      n_ = len(stream)
      for segs, desc in [([stream], 'whole'), ([stream[i:i + 1000] for i in range(0, n_, 1000)], 'chunks1000'), ([stream[i:i + 16384] for i in range(0, n_, 16384)], 'chunks16384')] + \
                        [(proto.cut(stream, sorted(set(r.randrange(1, n_) for _ in range(4)))), 'random4') for _ in range(6)]:
        o = proto.tcp_session(P.MetricLineReceiver, segs, rec)
        res.count('segmentations_executed')
        res.count('overlong_line_sessions')
        want = exp_b if o['disconnecting'] else exp_b + exp_a
        why = ('exception %r' % o['exc']) if o['exc'] else proto.same_points(o['got'], want)
        if why:
          report('mismatch/after-overlong-line', why + (' (connection %s)' % ('closed' if o['disconnecting'] else 'kept open')), stream[:80], want[:3],
                 '%s, line of %d bytes' % (desc, L + 5), o['got'])
          break
      res.case(('overlong', L), True)
  # several clients of the listener at the same time, each cut wherever the network likes (also inside a line / a frame
  # header); a client may go away in the middle of a line before the next one connects: every connection's complete,
  # well-formed datapoints arrive, each once, in that connection's order, and nothing of one client shows up in another's
  if cfg['proto'] in ('line', 'pickle') and cfg['shard'] in (0, 1, 2):
    import pickle
    cls = P.MetricLineReceiver if cfg['proto'] == 'line' else P.MetricPickleReceiver
    for case in range(40 if cfg['tier'] == 'quick' else 400):
      nconn = r.choice([2, 2, 3])
      plans, wants, streams = [], [], []
      dying = r.random() < 0.4
      for k in range(nconn):
        pts = [('c%d.%s' % (k, gen_name(r).replace(';', '_')), str(1600000000 + r.randrange(10 ** 6)), r.choice(['1', '2.5', '-7', '1e3'])) for _ in range(r.randint(2, 6))]
        if cfg['proto'] == 'line':
          st_ = b''.join(codec.encode_line(n, v, t, None, r.choice([b'\n', b'\r\n'])) for n, t, v in pts)
        else:
          st_ = b''.join(codec.encode_pickle_frame([(n, (float(t), float(v))) for n, t, v in pts[i:i + 2]]) for i in range(0, len(pts), 2))
        cuts = sorted(set(r.randrange(1, len(st_)) for _ in range(r.randint(1, 5))))
        plans.append(proto.cut(st_, cuts))
        streams.append(st_)
        wants.append([(n, (float(t), float(v))) for n, t, v in pts])
      close_after = {}
      if dying:
        # connection 0 is read up to a cut in the middle of its stream and then goes away; the others start afterwards
        close_after[0] = r.randint(1, max(1, len(plans[0]) - 1))
        order = [0] * close_after[0] + [r.randrange(1, nconn) for _ in range(40)]
        got0 = b''.join(plans[0][:close_after[0]])
        if cfg['proto'] == 'line':
          keep = got0.count(b'\n')
        else:
          keep, off = 0, 0
          while off + 4 <= len(got0):
            ln = int.from_bytes(got0[off:off + 4], 'big')
            if off + 4 + ln > len(got0):
              break
            keep += len(pickle.loads(got0[off + 4:off + 4 + ln]))
            off += 4 + ln
        wants[0] = wants[0][:keep]
      else:
        order = [r.randrange(nconn) for _ in range(60)] + list(range(nconn)) * 8
      o = proto.tcp_sessions_interleaved(cls, plans, order, rec, close_after)
      res.count('interleaved_connection_sessions')
      res.count('segmentations_executed')
      why = None
      if o['exc'] is not None:
        why = 'exception %r' % o['exc']
      else:
        for k in range(nconn):
          mine = [g for g in o['got'] if g[0].startswith('c%d.' % k)]
          why = proto.same_points(mine, wants[k])
          if why:
            why = 'connection %d: %s' % (k, why)
            break
        if not why and len(o['got']) != sum(len(w) for w in wants):
          why = '%d datapoints received, %d sent' % (len(o['got']), sum(len(w) for w in wants))
      if why:
        report('mismatch/interleaved-connections', why, b' || '.join(s_[:60] for s_ in streams), wants[0][:2],
               '%d connections interleaved%s' % (nconn, ', the first one going away mid-stream' if dying else ''), o['got'][:6])
      res.case(('multi', case), True)
  # datagrams of exactly the sizes at which buffers end (the read buffer of twisted's UDP port is 8192 bytes, a datagram of
  # that size arrives whole), with and without a line terminator after the last line, and the same datapoints batched otherwise
  if cfg['proto'] == 'udp' and cfg['shard'] in (0, 1):
    for L in (512, 1024, 1472, 2048, 4095, 4096, 4097, 8191, 8192, 8193, 16384, 32768, 65507):
      for final in (b'', b'\n', b'\r\n'):
        pts, d = [], b''
        k = 0
        while True:
          n, t, v = 'dg%d.m%d' % (L, k), str(1700000000 + k), r.choice(['12', '0.5', '-3', '1e3'])
          ln = codec.encode_line(n, v, t, None, b'\n')
          if len(d) + len(ln) + 40 > L - len(final):
            break
          d += ln
          pts.append((n, t, v))
          k += 1
        # the last line fills the datagram exactly (a long but ordinary name)
        room = L - len(final) - len(d)
        t, v = '1700009999', '7'
        n = 'dg%d.' % L + 'z' * (room - len('dg%d.' % L) - len(' %s %s' % (v, t)))
        d += ('%s %s %s' % (n, v, t)).encode() + final
        pts.append((n, t, v))
        assert len(d) == L, (len(d), L)
        want = [(n_, (float(t_), float(v_))) for n_, t_, v_ in pts]
        half = d.rfind(b'\n', 0, L // 2) + 1
        for dgrams, desc in (([d], 'one datagram of %d bytes' % L), ([d[:half], d[half:]], 'the same lines in two datagrams')):
          o = proto.udp_session(dgrams, rec)
          res.count('datagrams_executed', len(dgrams))
          res.count('boundary_size_datagrams')
          why = ('exception %r' % o['exc']) if o['exc'] is not None else proto.same_points(o['got'], want)
          if why:
            report('mismatch/boundary-size-datagram', why, d[-80:], want[-2:], '%s, %r after the last line' % (desc, final), o['got'][-2:])
            break
        res.case(('dgram', L, final), True)
  # big frames: thousands of datapoints in one pickle frame (a relay with a large MAX_DATAPOINTS_PER_MESSAGE), more
  # frames right behind it in the same read; anything carbon defers with reactor.callLater(0) is run between reads
  if cfg['proto'] == 'pickle' and cfg['shard'] in (0, 1):
    for nbig in ((1001, 2500) if cfg['tier'] == 'quick' else (1000, 1001, 2500, 5000, 12000)):
      big = [('big.%d' % i, (float(1600000000 + i), float(i))) for i in range(nbig)]
      small = [('after.%d' % i, (float(1700000000 + i), -1.5)) for i in range(3)]
      stream = codec.encode_pickle_frame(big, protocol=2) + codec.encode_pickle_frame(small, protocol=2) + codec.encode_pickle_frame(small[:1], protocol=0)
      exp = big + small + small[:1]
      n_ = len(stream)
      for segs, desc in [([stream], 'whole'), ([stream[i:i + 65536] for i in range(0, n_, 65536)], 'chunks64k'),
                         (proto.cut(stream, sorted(set(r.randrange(1, n_) for _ in range(4)))), 'random4')]:
        o = proto.tcp_session(P.MetricPickleReceiver, segs, rec, clock=clk, gaps=[0.001] if clk is not None else None)
        res.count('segmentations_executed')
        res.count('big_frame_sessions')
        why = ('exception %r' % o['exc']) if o['exc'] else ('connection closed' if o['disconnecting'] else proto.same_points(o['got'], exp))
        if why:
          report('mismatch/big-frame', why, stream[:300], exp[:3], '%s, frame of %d datapoints' % (desc, nbig), o['got'])
          break
      res.case(('bigframe', nbig), True)
  for case in range(ncases):
    npoints = r.choice([1, 2, 3, 5, 8, 13, 25, 40]) if case % 4 else r.choice([1, 2])
    pts = []
    for _ in range(npoints):
      pts.append((gen_name(r), gen_ts_text(r), gen_value_text(r)))
    exp_line = [(n, (float(t), float(v))) for n, t, v in pts]
    nontrivial = npoints >= 2 or any(ord(ch) > 127 for n, _, _ in pts for ch in n)
    if cfg['proto'] == 'line':
      eol = r.choice([b'\n', b'\n', b'\r\n'])
      stream = b''.join(codec.encode_line(n, v, t, r if r.random() < 0.5 else None, eol) for n, t, v in pts)
      if r.random() < 0.3:
        stream = r.choice([b'\n', b'\r\n', b'  \n']) + stream       # blank lines are not datapoints
      if len(stream) > 4096:
        continue
      run_tcp(P.MetricLineReceiver, stream, exp_line)
      res.case(stream.hex(), nontrivial)
      res.sample(dict(proto='line', stream=stream[:120].decode('utf-8', 'replace'), points=npoints, bytes=len(stream)), cap=2)
    elif cfg['proto'] == 'udp':
      # batching into datagrams, with / without trailing newline
      dgrams, i = [], 0
      while i < len(pts):
        k = r.randint(1, 6)
        chunk = pts[i:i + k]
        i += k
        eol = r.choice([b'\n', b'\r\n'])
        d = b''.join(codec.encode_line(n, v, t, r if r.random() < 0.5 else None, eol) for n, t, v in chunk)
        if r.random() < 0.5:
          d = d[:-len(eol)]
        dgrams.append(d)
      o = proto.udp_session(dgrams, rec, clock=clk, gaps=[r.choice([0, 1, 29, 31, 100, 3600]) for _ in range(7)] if clk is not None else None)
      if clk is not None:
        res.count('sessions_with_idle_timeout_and_time_passing')
      if o.get('port_closed'):
        report('udp-port-closed', 'the UDP receiver closed its port', b'|'.join(dgrams), exp_line, 'datagrams with quiet periods', o['got'])
      res.count('datagrams_executed', len(dgrams))
      if o['exc'] is not None:
        report('exception', 'exception %r escaped datagramReceived' % o['exc'], b'|'.join(dgrams), exp_line, 'datagrams', o['got'])
      else:
        why = proto.same_points(o['got'], exp_line)
        if why:
          report('mismatch', why, b'|'.join(dgrams), exp_line, 'datagrams', o['got'])
      res.case(b'|'.join(dgrams).hex(), nontrivial)
      res.sample(dict(proto='udp', datagrams=[d[:60].decode('utf-8', 'replace') for d in dgrams[:3]]), cap=2)
    else:
      # pickle: numbers as python objects
      entries = []
      for n, t, v in pts:
        tv = float(t)
        if tv == int(tv) and r.random() < 0.6:
          tv = int(tv)
        vv = float(v)
        if vv == vv and abs(vv) < 2 ** 62 and vv == int(vv) and r.random() < 0.4:
          vv = int(vv)
        if vv in (0.0, 1.0) and r.random() < 0.2:
          vv = bool(vv)
        entries.append((n, (tv, vv)))
      exp = [(n, (float(t), float(v))) for n, (t, v) in entries]
      frames, i = [], 0
      prefix_positions = set()
      stream = b''
      while i < len(entries) or not frames:
        k = r.randint(0, 8) if r.random() < 0.2 else r.randint(1, 20)
        if r.random() < 0.3:
          # what a python2 sender writes: names as 8-bit strings holding UTF-8
          f = codec.encode_pickle_frame_py2(entries[i:i + k], protocol=r.randrange(0, 3), r=r)
          res.count('python2_style_frames')
        else:
          f = codec.encode_pickle_frame(entries[i:i + k], protocol=r.randrange(0, 6), as_list=r.random() < 0.2)
        prefix_positions.update(range(len(stream) + 1, len(stream) + 4))
        stream += f
        frames.append(f)
        i += k
      if len(stream) > 4096:
        continue
      run_tcp(P.MetricPickleReceiver, stream, exp, prefix_positions)
      res.case(stream.hex(), nontrivial)
      res.sample(dict(proto='pickle', frames=len(frames), points=npoints, bytes=len(stream), first=repr(entries[0])), cap=2)


def finalize(merged, tier):
  c = merged['counters']
  out = []
  for k in ('segmentations_executed', 'cuts_inside_utf8_char', 'cuts_inside_length_prefix', 'datagrams_executed'):
    if not c.get(k):
      out.append('monitor counter %s is zero' % k)
  return out


def classify(v):
  return None
