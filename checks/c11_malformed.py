"""C11 — malformed input is skipped without harming the connection or its neighbours."""
import pickle
import struct

from vlib import gen

PROPERTY = 'C11'
LEVEL = 'exploration'
RULE = ('case = byte stream interleaving uniquely named well-formed items with malformed ones from a zoo (invalid UTF-8, wrong '
        'field counts, unparsable / non-finite numbers, truncated or garbage pickles, wrong shapes and element types, random '
        'opcode programs) or a byte-level mutation of a valid stream; fed to fresh real protocol instances whole, bytewise, at '
        'every single cut (short streams) and at random cuts; oracle: no exception escapes dataReceived/datagramReceived, the '
        'connection is closed only for an over-long frame, and the recorder holds exactly the well-formed items (unspecified '
        'items may or may not appear); non-trivial = stream with >=1 malformed and >=1 well-formed item; distinct = streams')
RULE_MORE = (' Also: PICKLE_RECEIVER_MAX_LENGTH raised / lowered / default with frames around the maximum, USE_WHITELIST configurations, names with (malformed) tags, python2 frames with names that are not UTF-8.')
RULE_MORE = RULE_MORE + ' Round 12: frames with 21-130 mostly malformed entries.'
RULE = RULE + RULE_MORE
EXHAUSTIVE = {'quick': False, 'thorough': False}
EXHAUSTIVE_OVER = 'single cut positions of streams <= 600 bytes'
ASSUMPTIONS = ['unspecified (either outcome accepted, exceptions still forbidden): numeric strings / bools as pickle numbers, '
               'bytes names, top-level pickle objects other than list/tuple, lines whose only defect is a negative timestamp',
               'mutated streams are judged by the escape/disconnect clauses and by the reference decoder in vlib/refs/codec.py']

BAD_UTF8 = [b'\x80', b'\xc3', b'\xf0\x9f\x98', b'\xc0\xaf', b'\xed\xa0\x80', b'\xff\xfe', b'caf\xe9']


def configs(tier, seed):
  n = 6 if tier == 'quick' else 16
  cfgs = []
  for proto in ('line', 'udp', 'pickle'):
    for s in range(n):
      cfgs.append(dict(name='%s/%d' % (proto, s), proto=proto, shard=s))
  # PICKLE_RECEIVER_MAX_LENGTH as configured ("set this to a higher value if you want to send big metric batches"): only a
  # frame above the configured maximum may close the connection
  # USE_WHITELIST with lists that admit everything: the admission rules are consulted for every datapoint
  for proto in ('line', 'udp', 'pickle'):
    cfgs.append(dict(name='%s/whitelist' % proto, proto=proto, shard=50, whitelist=True))
  # the same in an interpreter started with -O (asserts compiled away)
  for proto in ('line', 'udp', 'pickle'):
    cfgs.append(dict(name='%s/python-O' % proto, proto=proto, shard=60, pyopt=1))
  for ml in (3 * 2 ** 20, 2048, 2 ** 20 + 1, 'default'):
    cfgs.append(dict(name='pickle/limit%s' % ml, proto='pickle', shard=99, maxlen=ml))
  return cfgs


def tag_tail(r):
  """Sometimes the name carries tags, well-formed or not: either way the datapoint itself is well-formed."""
  if r.random() < 0.8:
    return ''
  return r.choice([';dc=a', ';dc=a;host=b', ';', ';dc', ';dc=', ';=a', ';dc=~a', ';d!c=a', ';a=b;c', '{a="b"}'])


# ------------------------------------------------------------------ line items
def good_line(r, idx):
  from vlib.refs import codec
  name = 'v%d.%s' % (idx, gen.metric_name(r, nonascii=r.random() < 0.5)) + tag_tail(r)
  v = gen.value(r)
  vt = '%d' % v if isinstance(v, int) and abs(v) < 2 ** 53 else codec.spell_float(float(v), r)
  tt = '%d' % r.randrange(0, 2 ** 32)
  return codec.encode_line(name, vt, tt, r if r.random() < 0.3 else None, b''), (name, (float(tt), float(vt)))


def bad_line(r, idx):
  """(bytes without EOL, kind).  kind 'bad' = must be skipped, 'opt' = unspecified, 'nan' = dropped."""
  name = 'x%d.bad' % idx
  c = r.randrange(0, 16)
  nb = name.encode()
  if c == 0:
    return r.choice(BAD_UTF8) + b' 1 2', 'bad'
  if c == 1:
    return nb + r.choice(BAD_UTF8) + b'z 1 2', 'bad'
  if c == 2:
    return nb + b' 1' + r.choice(BAD_UTF8) + b' 2', 'bad'
  if c == 3:
    return r.choice([b'', b' ', b'\t', nb, nb + b' 1', nb + b' 1 2 3', nb + b' 1 2 3 4 5', b'1 2']), 'bad'
  if c == 4:
    return nb + r.choice([b' abc 2', b' 1 abc', b' 1,5 2', b' 0x10 2', b' 1 2s', b' -- 2', b' 1e 2', b' . 2', b' 1 1.2.3']), 'bad'
  if c == 5:
    return nb + b' 1 ' + r.choice([b'inf', b'-inf', b'Infinity', b'1e999', b'-1e999', b'nan', b'NaN', b'-nan']), 'bad'
  if c == 6:
    return nb + r.choice([b' nan 5', b' NaN 5', b' -nan 5']), 'nan'
  if c == 7:
    return bytes(r.getrandbits(8) for _ in range(r.randint(1, 80))).replace(b'\n', b'?'), 'garbage'
  if c == 8:
    return b'G' * r.choice([401, 1000, 16383, 16384]), 'bad'
  if c == 9:
    return nb + b' 1 ' + r.choice([b'-5', b'-2.5', b'-1e9']), 'opt'      # negative timestamps: unspecified (C12)
  if c == 10:
    return nb + b' 1 2 ' + r.choice(BAD_UTF8), 'bad'
  if c == 11:
    return r.choice([b'\x00', b'\x00 \x00 \x00', b'a\x00b 1', b'\xef\xbb\xbf']), 'garbage'
  if c == 12:
    return nb + r.choice([b' 1_0_ 2', b' 1 \xd9\xa3x', b' \xe2\x88\x9e 2', b' 1 2\xc2\xa0 3 4',
                          # separators that are whitespace for split() but line boundaries for str.splitlines()
                          b'\x0cfrag 2 200', b' 1 2\x1cextra 3 4', b'\xc2\x85x 1 2', b' 1\xe2\x80\xa8x 2 3', b'\x0b1\x0b2\x0b3',
                          b' 1 2\x1d', b'\x1e\x1e']), 'bad4'
  if c == 13:
    return nb + b' ' + b'9' * 400 + b'x 2', 'bad'
  if c == 14:
    return nb + b' 1 ' + r.choice([b'1e400', b'-inf', b'+inf', b'INF']), 'bad'
  return nb + b' 1 nan', 'bad'


# ------------------------------------------------------------------ pickle items
def frame(p):
  return struct.pack('!I', len(p)) + p


def bad_entries(r, idx):
  """Entries that must be skipped (kind 'bad') or are unspecified ('opt')."""
  n = 'x%d.bad' % idx
  bads = [
    (n,), (n, (1,)), (n, (1, 2, 3)), (n, 1, 2), n, 1, None, (), [], (n, None), (n, 5), (n, 'ab'),
    (None, (1, 2)), (5, (1, 2)), (5.5, (1, 2)), ((n,), (1, 2)), ([n], (1, 2)), ({}, (1, 2)),
    (n, (None, 2)), (n, (1, None)), (n, ([1], 2)), (n, (1, {})), (n, ('abc', 2)), (n, (1, 'abc')), (n, (1, b'abc')),
    (n, (float('inf'), 2)), (n, (float('-inf'), 2)), (n, (float('nan'), 2)), (n, (10 ** 400, 2)), (n, (1, 10 ** 400)),
    (n, (-10 ** 400, 2)), (n, {1: 2}), (n, [[1, 2]]), {n: (1, 2)}, (n, (1, 2), 3), (n, (complex(1, 2), 2)) if False else (n, ((1, 2), 2)),
  ]
  opts = [(n.encode(), (1, 2)), (n, ('1', '2')), (n, (True, 2)), (n, (1, False)), (n, (b'1', 2)), (n, ' 5 ', 1)[:2],
          (n, (1, float('nan'))), (n, (-5, 1)), (bytearray(n.encode()), (1, 2)), (n, '12'), (n, b'12'), (n, [1, 2]), [n, (1, 2)]]
  if r.random() < 0.7:
    return r.choice(bads), 'bad'
  return r.choice(opts), 'opt'


OPCODES_SAFE = [b'N', b'I1\n', b'I01\n', b'F1.5\n', b'J\x01\x00\x00\x00', b'K\x05', b'M\x01\x02', b'L5L\n', b'\x8a\x01\x05',
                b'Vabc\n', b'X\x03\x00\x00\x00abc', b'\x8c\x01a', b'S"abc"\n', b'U\x03abc', b'T\x03\x00\x00\x00abc', b'C\x02ab',
                b'B\x02\x00\x00\x00ab', b'\x8e\x02\x00\x00\x00\x00\x00\x00\x00ab', b'G?\xf0\x00\x00\x00\x00\x00\x00',
                b'(', b')', b']', b'}', b'\x8f', b't', b'l', b'd', b'\x85', b'\x86', b'\x87', b'\x90', b'\x91', b'a', b'e', b's',
                b'u', b'2', b'0', b'1', b'p0\n', b'g0\n', b'q\x00', b'h\x00', b'r\x00\x00\x00\x00', b'j\x00\x00\x00\x00', b'\x94',
                b'\x88', b'\x89', b'\x80\x02', b'\x80\x04', b'\x80\x05', b'\x80\xff', b'\x95\x05\x00\x00\x00\x00\x00\x00\x00',
                b'R', b'b', b'o', b'\x81', b'\x92', b'P1\n', b'Q', b'\x82\x01', b'\x83\x01\x00', b'\x84\x01\x00\x00\x00',
                b'\x96\x01\x00\x00\x00\x00\x00\x00\x00a', b'\x97', b'\x98', b'cos\nsystem\n', b'\x93', b'i__main__\nX\n',
                b'I\n', b'F\n', b'Ixyz\n', b'Fnan\n', b'Finf\n', b'L\n', b'S\n', b"S'\n", b'V\\ud800\n', b'.']


def random_program(r):
  n = r.randint(1, 30)
  p = b''.join(r.choice(OPCODES_SAFE) for _ in range(n))
  if r.random() < 0.7:
    p += b'.'
  return p


def deep_pickle(r):
  depth = r.choice([10, 100, 500, 2000, 100000])
  return b'(' * depth + b'I1\n' + b't' * depth + b'.'


def run_config(cfg, res):
  # random bytes can spell LONG_BINPUT with a huge index, which makes CPython's unpickler allocate gigabytes (a pickle
  # bomb: a hang, not an exception, hence outside this property); an address-space limit turns it into a MemoryError
  import resource
  resource.setrlimit(resource.RLIMIT_AS, (4 << 30, 4 << 30))
  from vlib import boot, proto
  from vlib.refs import codec
  conf = {'PICKLE_RECEIVER_MAX_LENGTH': cfg['maxlen']} if cfg.get('maxlen') not in (None, 'default') else {}
  files = None
  if cfg.get('whitelist'):
    conf['USE_WHITELIST'] = True
    files = {'whitelist.conf': '.*\n^$\n', 'blacklist.conf': '^this-matches-nothing-at-all$\n(\n'}
  ns = boot.boot('carbon-cache', conf, files=files)
  if cfg.get('whitelist'):
    import carbon.service as service
    service.createBaseService(None, ns.settings)       # the daemon's own wiring of the lists
  import carbon.protocols as P
  rec = proto.install_recorder()
  r = gen.rng(cfg['seed'], 'C11', cfg['name'])
  ncases = 250 if cfg['tier'] == 'quick' else 3000
  MAXLEN = ns.settings.PICKLE_RECEIVER_MAX_LENGTH

  def judge(o, items, stream, desc, may_close):
    """items: list of (kind, expected-or-None) in stream order; kinds: good / bad / opt / nan / garbage / stop."""
    label = cfg['proto']
    if o['exc'] is not None:
      e = o['exc']
      import traceback
      tb = traceback.extract_tb(e.__traceback__)
      where = '%s:%s' % (tb[-1].filename.rsplit('/', 1)[-1], tb[-1].name) if tb else '?'
      carbon_frames = [f for f in tb if '/carbon/' in f.filename and '/vlib/' not in f.filename]
      cwhere = '%s:%s' % (carbon_frames[-1].filename.rsplit('/', 1)[-1], carbon_frames[-1].name) if carbon_frames else where
      res.violation('%s/escape/%s@%s' % (label, type(e).__name__, cwhere),
                    '%s escaped the %s handler (raised in %s) under %s: %r; stream %r' % (type(e).__name__, label, where, desc, e, stream[:160]),
                    dict(stream=stream.hex()[:4000], segmentation=desc, exc=repr(e)))
      return False
    if o.get('disconnecting') and not may_close:
      res.violation('%s/disconnected' % label, 'connection closed although no frame exceeded the maximum length (%s); stream %r' % (desc, stream[:160]),
                    dict(stream=stream.hex()[:4000], segmentation=desc))
      return False
    got = list(o['got'])
    gi = 0
    for kind, exp in items:
      if kind == 'stop':
        break
      if kind == 'good':
        if gi >= len(got):
          res.violation('%s/neighbour-lost' % label, 'well-formed %r missing (%s); got %r; stream %r' % (exp, desc, got[:6], stream[:160]),
                        dict(stream=stream.hex()[:4000], segmentation=desc))
          return False
        why = proto.same_points([got[gi]], [exp])
        if why:
          res.violation('%s/neighbour-altered-or-extra' % label, 'expected %r next but recorder has %r (%s): %s' % (exp, got[gi], desc, why),
                        dict(stream=stream.hex()[:4000], segmentation=desc))
          return False
        gi += 1
      elif kind == 'optexact':
        # unspecified item with a known name and value (only its timestamp treatment is open): at most one match
        if gi < len(got) and got[gi][0] == exp[0] and proto.same_points([(got[gi][0], (0, got[gi][1][1]))], [(exp[0], (0, exp[1][1]))]) is None \
           and not (got[gi][1][0] >= 0 and got[gi][1][0] < 1e9 and got[gi][1][0] == exp[1][0]):
          gi += 1
          res.count('unspecified_items_accepted')
      elif kind in ('opt', 'garbage'):
        # unspecified item: if something with its tag name shows up, consume it
        while gi < len(got) and exp is not None and isinstance(got[gi][0], str) and got[gi][0].startswith(exp):
          gi += 1
          res.count('unspecified_items_accepted')
      # 'bad' and 'nan' contribute nothing
    if gi != len(got):
      res.violation('%s/malformed-accepted-or-extra' % label, 'recorder has unexpected extra %r (%s); stream %r' % (got[gi:gi + 3], desc, stream[:160]),
                    dict(stream=stream.hex()[:4000], segmentation=desc))
      return False
    return True

  def segmentations(stream):
    n = len(stream)
    yield [stream], 'whole'
    if n <= 3000:
      yield [stream[i:i + 1] for i in range(n)], 'bytewise'
    if n <= 600:
      for i in range(1, n):
        yield [stream[:i], stream[i:]], 'cut@%d' % i
    for k in range(12):
      if n > 2:
        pos = sorted(set(r.randrange(1, n) for _ in range(r.randint(1, 8))))
        yield proto.cut(stream, pos), 'random@%s' % pos

  if cfg.get('maxlen'):
    if MAXLEN != (2 ** 20 if cfg['maxlen'] == 'default' else cfg['maxlen']):      # 1 MiB is the documented default
      res.inconc('PICKLE_RECEIVER_MAX_LENGTH not applied by the config path')
      return
    # the generated frames below assume the default maximum (some are ~200 kB): run them only where the maximum was raised
    ncases = (40 if cfg['tier'] == 'quick' else 300) if MAXLEN >= 2 ** 20 else 0
    # well-formed frames sized around the configured maximum, between small well-formed neighbours
    for k in range(6 if cfg['tier'] == 'quick' else 30):
      target = r.choice([MAXLEN - 1, MAXLEN, MAXLEN + 1, MAXLEN // 2, MAXLEN - 100, int(MAXLEN * 0.9), MAXLEN + 5000])
      ents, size = [], 0
      namelen = 20 if MAXLEN < 100000 else 200
      i = 0
      while True:
        e = ('big%d.%s' % (i, 'x' * namelen), (1500000000 + i, float(i)))
        ents.append(e)
        i += 1
        if i % 50 == 0 or MAXLEN < 100000:
          size = len(pickle.dumps(ents, protocol=2))
          if size >= target - (namelen + 40):
            break
      pk = pickle.dumps(ents, protocol=2)
      if len(pk) < target:            # pad the last name to hit the size exactly
        ents[-1] = (ents[-1][0] + 'y' * (target - len(pk)), ents[-1][1])
        pk = pickle.dumps(ents, protocol=2)
      before = ('first.one', (1, 1.0))
      after = ('last.one', (2, 2.0))
      stream = frame(pickle.dumps([before], protocol=2)) + frame(pk) + frame(pickle.dumps([after], protocol=2))
      over = len(pk) > MAXLEN
      items = [('good', (before[0], (1.0, 1.0)))]
      if over:
        items.append(('stop', None))
      else:
        items += [('good', (n, (float(t), float(v)))) for n, (t, v) in ents] + [('good', (after[0], (2.0, 2.0)))]
      res.count('frames_over_configured_maximum' if over else 'frames_up_to_configured_maximum')
      for segs, desc in (([stream], 'whole'), (proto.cut(stream, sorted(set(r.randrange(1, len(stream)) for _ in range(5)))), 'random5'),
                         ([stream[j:j + 65536] for j in range(0, len(stream), 65536)], 'chunks64k')):
        o = proto.tcp_session(P.MetricPickleReceiver, segs, rec)
        res.count('segmentations_executed')
        if not judge(o, items, stream[:200], 'frame of %d bytes, maximum %d, %s' % (len(pk), MAXLEN, desc), over):
          break
      res.case(('limit', MAXLEN, len(pk)), nontrivial=True)
  for case in range(ncases):
    idx = 0
    if cfg['proto'] in ('line', 'udp'):
      items, chunks = [], []
      nitems = r.randint(2, 12)
      may_close = False
      for _ in range(nitems):
        idx += 1
        if r.random() < 0.5:
          b, exp = good_line(r, idx)
          items.append(('good', exp))
        else:
          b, kind = bad_line(r, idx)
          if kind in ('garbage', 'bad4'):
            k2, v2 = codec.parse_line_bytes(b)
            if k2 == 'ok':
              items.append(('good', v2))
            else:
              items.append(('bad', None))
          else:
            items.append((kind, 'x%d.bad' % idx if kind == 'opt' else None))
        chunks.append(b)
      nbad = sum(1 for k, _ in items if k != 'good')
      ngood = len(items) - nbad
      if cfg['proto'] == 'line':
        eol = r.choice([b'\n', b'\r\n'])
        stream = b''.join(c + eol for c in chunks)
        if r.random() < 0.1:
          stream += b'partial line without newline'
        # over-long line: connection may close and everything after it is lost
        refgot, closed = codec.decode_line_stream(stream)
        if closed:
          may_close = True
          cut_items, acc = [], 0
          for (k, e), c in zip(items, chunks):
            if len(c + eol[:-1]) > codec.LINE_MAX:
              cut_items.append(('stop', None))
              break
            cut_items.append((k, e))
          items = cut_items
        # cross-check construction against the reference decoder
        exp_good = [e for k, e in items if k == 'good']
        ref_names = [g[0] for g in refgot if g[1][0] >= 0]      # negative timestamps are the unspecified ('opt') items
        if [e[0] for e in exp_good] != ref_names:
          res.inconc('reference decoder and constructed expectation disagree: %r vs %r' % (ref_names[:5], [e[0] for e in exp_good][:5]))
          continue
        for segs, desc in segmentations(stream):
          res.count('segmentations_executed')
          o = proto.tcp_session(P.MetricLineReceiver, segs, rec)
          if not judge(o, items, stream, desc, may_close):
            break
      else:
        # datagrams: a few lines each
        dgrams, ditems, i = [], [], 0
        while i < len(chunks):
          k = r.randint(1, 5)
          part = chunks[i:i + k]
          if any(len(c) > 8000 for c in part):
            part = [c[:300] for c in part]
            # truncated garbage stays garbage ('G...' lines have no fields)
          d = r.choice([b'\n', b'\r\n']).join(part)
          if r.random() < 0.5:
            d += b'\n'
          dgrams.append(d)
          i += k
        stream = b'|'.join(dgrams)
        o = proto.udp_session(dgrams, rec)
        res.count('datagrams_executed', len(dgrams))
        judge(o, items, stream, 'datagrams', False)
      res.case(stream.hex()[:400], nontrivial=(nbad >= 1 and ngood >= 1))
      res.sample(dict(proto=cfg['proto'], stream=stream[:160].decode('utf-8', 'replace'), good=ngood, malformed=nbad), cap=2)
      # byte-level mutation of the same stream: judged by escape / disconnect / reference decoder
      if cfg['proto'] == 'line':
        for _ in range(4):
          m = bytearray(stream)
          for _ in range(r.randint(1, 4)):
            op = r.randrange(4)
            pos = r.randrange(0, max(1, len(m)))
            if op == 0 and m:
              m[pos] ^= 1 << r.randrange(8)
            elif op == 1:
              m.insert(pos, r.getrandbits(8))
            elif op == 2 and m:
              del m[pos]
            else:
              a = r.randrange(0, max(1, len(m)))
              m[pos:pos] = m[a:a + r.randint(1, 20)]
          m = bytes(m)
          refgot, closed = codec.decode_line_stream(m)
          for segs, desc in ((([m]), 'whole'), ([m[i:i + 7] for i in range(0, len(m), 7)], 'chunks7')):
            o = proto.tcp_session(P.MetricLineReceiver, segs, rec)
            res.count('mutated_streams_executed')
            # negative timestamps are unspecified here (-1 means "now", see C12): either outcome, matched by name
            mitems = [(('good', g) if g[1][0] >= 0 else ('optexact', g)) for g in refgot] + ([('stop', None)] if closed else [])
            if not judge(o, mitems, m, 'mutated/' + desc, closed):
              break
    else:
      frames, items = [], []
      may_close = False
      nframes = r.randint(1, 6)
      for _ in range(nframes):
        c = r.random()
        if c < 0.45:
          # list with good and bad entries
          ents, its = [], []
          # now and then a frame with dozens of entries most of which are malformed (counters, log limits and the like
          # must not change what happens to entry number 21 or 101)
          crowd = r.random() < 0.12
          for _ in range(r.choice([21, 22, 25, 40, 60, 101, 130]) if crowd else r.randint(0, 8)):
            idx += 1
            if r.random() < (0.2 if crowd else 0.55):
              name = 'v%d.%s' % (idx, gen.metric_name(r, nonascii=r.random() < 0.5)) + tag_tail(r)
              t = r.randrange(0, 2 ** 32)
              v = gen.value(r)
              if isinstance(v, int) and abs(v) >= 2 ** 62:
                v = float(v)
              ents.append((name, (t, v)))
              its.append(('good', (name, (float(t), float(v)))))
            else:
              e, kind = bad_entries(r, idx)
              ents.append(e)
              its.append((kind, 'x%d.bad' % idx if kind == 'opt' else None))
          top = ents if r.random() < 0.8 else tuple(ents)
          try:
            pk = pickle.dumps(top, protocol=r.randrange(0, 6))
          except Exception:
            continue
          import pickletools
          if any(op.name in ('GLOBAL', 'STACK_GLOBAL', 'INST', 'OBJ', 'REDUCE', 'NEWOBJ') for op, _, _ in pickletools.genops(pk)):
            # e.g. bytes under protocol <= 2 are pickled through _codecs.encode: the whole frame references a global and
            # must be rejected as an invalid pickle (C13); none of its entries may appear
            its = [('bad', None) for _ in its]
            res.count('frames_with_globals_rejected_whole')
          frames.append(frame(pk))
          items.extend(its)
        elif c < 0.50:
          # a python2 sender (names are 8-bit strings) with one name that is not UTF-8: that entry can never be a datapoint
          # under any name; its neighbours in the frame may or may not survive
          ents, its = [], []
          for _ in range(r.randint(1, 5)):
            idx += 1
            if r.random() < 0.5:
              nm = ('x%d.bad.py2ok' % idx)
              ents.append((nm.encode('utf-8'), (r.randrange(1, 10 ** 9), r.randrange(0, 1000))))
              its.append(('opt', nm))
            else:
              ents.append((r.choice([b'caf\xe9.req%d', b'\xff\xfe.x%d', b'trunc\xe2\x82.%d', b'over\xc0\xaf.%d']) % idx, (r.randrange(1, 10 ** 9), 1)))
              its.append(('bad', None))
          frames.append(codec.encode_pickle_frame_py2_raw(ents, protocol=r.randrange(0, 3), r=r))
          items.extend(its)
          res.count('python2_frames_with_undecodable_names')
        elif c < 0.55:
          idx += 1
          top = r.choice([5, None, 'str', b'bytes', 1.5, True, {'a': 1}, {('x%d.bad' % idx, (1, 2))}, {('x%d.bad' % idx, (1, 2)): 1}, (), [], set()])
          frames.append(frame(pickle.dumps(top, protocol=r.randrange(0, 6))))
          items.append(('opt', 'x%d.bad' % idx))
        elif c < 0.65:
          good = pickle.dumps([('x%d.bad' % idx, (1, 2))], protocol=2)
          frames.append(frame(good[:r.randint(0, len(good) - 1)]))
          items.append(('bad', None))
        elif c < 0.75:
          frames.append(frame(bytes(r.getrandbits(8) for _ in range(r.randint(0, 60)))))
          items.append(('opt', 'zzz'))
        elif c < 0.9:
          frames.append(frame(random_program(r)))
          items.append(('opt', 'zzz'))
        elif c < 0.93:
          frames.append(frame(deep_pickle(r)))
          items.append(('bad', None))
        elif c < 0.96:
          frames.append(frame(b''))
          items.append(('bad', None))
        else:
          # over-limit frame: connection may close, everything after is lost
          frames.append(struct.pack('!I', MAXLEN + r.choice([1, 1000, 2 ** 31])))
          items.append(('stop', None))
          may_close = True
          break
      stream = b''.join(frames)
      nbad = sum(1 for k, _ in items if k != 'good')
      ngood = len(items) - nbad
      for segs, desc in segmentations(stream):
        res.count('segmentations_executed')
        o = proto.tcp_session(P.MetricPickleReceiver, segs, rec)
        if not judge(o, items, stream, desc, may_close):
          break
      res.case(stream.hex()[:400], nontrivial=(nbad >= 1 and ngood >= 1))
      res.sample(dict(proto='pickle', frames=len(frames), bytes=len(stream), good=ngood, other=nbad), cap=2)


def finalize(merged, tier):
  c = merged['counters']
  out = []
  for k in ('segmentations_executed', 'datagrams_executed', 'mutated_streams_executed'):
    if not c.get(k):
      out.append('monitor counter %s is zero' % k)
  return out


def classify(v):
  return None
