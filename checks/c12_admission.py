"""C12 — admission rules: blacklist, whitelist, NaN and timestamp normalisation."""
import os
import re

from vlib import gen

PROPERTY = 'C12'
LEVEL = 'exploration'
RULE = ('case = (generated whitelist file, blacklist file, MIN_TIMESTAMP_RESOLUTION, batch of datapoints); the files are loaded '
        'by the real RegexList.read_list (mtime bumped), the batch is sent through the real line, UDP and pickle listeners and '
        'the recorder on events.metricReceived plus the blacklistMatches/whitelistRejects counters are compared with a '
        '15-line admission model (blacklist -> whitelist -> NaN -> -1 becomes now -> floor to resolution); virtual clock '
        'for "now"; non-trivial = batch in which >=1 datapoint is filtered and >=1 admitted; distinct = (files, batch)')
RULE_MORE = (" Lists are wired by the real createBaseService() and reloaded only by carbon's own pollers on a virtual clock; names include tagged and non-ASCII ones, list lines every kind of invalid regular expression, batches malformed lines, pickle frames the python2 style.")
RULE_MORE = RULE_MORE + ' Round 12: list rules mixing anchored and unanchored alternatives.'
RULE = RULE + RULE_MORE
EXHAUSTIVE = {'quick': False, 'thorough': False}
EXHAUSTIVE_OVER = ''
ASSUMPTIONS = ['timestamps in (-2,-1) and other negative timestamps are unspecified (the statement speaks of -1 only): either '
               'outcome accepted and counted separately',
               'a list line is a comment iff it starts with #; indented comments are not generated',
               'regex semantics are those of Python re.search (the model uses re itself; the application rules are under test)']

PATTERNS = ['foo', 'bar', r'\.count$', '^carbon', '^a', 'z$', 'a|b', '[0-9]+', '.*', r'^servers\.', r'web\d+', '^$', 'x{2}', '(?i)CPU',
            'é', r'\.', '^[^.]+$', 'prod|stage', r'^(?!ok)', 'cpu.*idle', 'tmp',
            # groups, back-references, named groups, inline flags: each LINE is one regular expression of its own
            r'^(\w+)\.\1\.', r'^(carbon|servers|stats)\.', r'(a|b)\.(c|d)', r'(\d)\1', r'(?P<h>web\d+)\.(?P=h)', r'(?P<h>x)y',
            r'^(?:prod|stage)\.(api)\.\1', r'(?i)^WEB', r'(.)\1$', 'caf\u00e9', '^servers\\.caf\u00e9\\.', ';dc=a', 'host=b;dc', r'^\w+$',
            # anchored and unanchored alternatives in one rule (the ^ binds to the first alternative only)
            r'^tmp\.|\.tmp$', r'^carbon\.|\.cpu\.\w+$', r'^a\.|b', '^x|y|z$', r'^servers|idle']
NOISE = ['# a comment', '', '   ', '#', '(', '[a', '*x', '(?P<n', '\\',
         # every way re.compile can fail (errors with and without a position, with and without a pattern line number)
         '(?<=ab|xyz)cd', '(?<!a*)b', '(?P<h>x)(?P<h>y)', 'a{2,1}', '[z-a]', '(?z)', '\\1', '(?P=nope)', 'a**', '(?i', '\\N{nope}']
NAMES = ['foo', 'foo.bar', 'a', 'z', 'carbon.agents.x', 'servers.web1.cpu.idle', 'servers.web22.mem', 'xx', 'CPU.load', 'cpu.load',
         'ok.fine', 'prod.api.count', 'stage.api.hits', 'tmp', 'é.metric', 'nomatch', 'Q', '12', 'b', 'abc.def.count', 'bar.baz',
         'web01.web01.load', 'host7.host7.cpu', 'a.c', 'b.d.x', 'n.11', 'web3.web3', 'web3.web4', 'prod.api.api', 'stage.api.apx', 'Web.x', 'zz',
         # tagged series, well-formed and not (the rules see the name as received), non-ASCII
         'web.hits;dc=a;host=b', 'web.hits;host=b;dc=a', 'web.hits;', 'x;dc', ';dc=a', 'x;dc=', 'x;dc=~a', 'x;d!c=a', 'cpu{mode="idle"}',
         'servers.caf\u00e9.load', 'caf\u00e9', '\u00e9\u00e9.x']


def configs(tier, seed):
  cfgs = []
  n = 3 if tier == 'quick' else 6
  for resn in (0, 1, 10, 60):
    for s in range(n):
      cfgs.append(dict(name='res%d/%d' % (resn, s), res=resn, shard=s))
  # a relay that normalises tagged names (TAG_RELAY_NORMALIZED): the rules still see, and the pipeline still gets, the name
  # as it was received - normalising is the relay processor's business
  cfgs.append(dict(name='res0/tagnorm', res=0, shard=40, tagnorm=True))
  cfgs.append(dict(name='res60/tagnorm', res=60, shard=41, tagnorm=True))
  return cfgs


def gen_list(r):
  k = r.choice([0, 0, 1, 1, 2, 3, 5])
  lines = [r.choice(PATTERNS) for _ in range(k)]
  for _ in range(r.choice([0, 1, 2])):
    lines.insert(r.randrange(len(lines) + 1), r.choice(NOISE))
  return lines


def compile_list(lines):
  out = []
  for line in lines:
    p = line.strip()
    if line.startswith('#') or not p:
      continue
    try:
      out.append(re.compile(p))
    except re.error:
      pass
  return out


def model(dp, black, white, res, now):
  """dp = (name, ts, value).  Returns ('admit', (name,(ts,value))) | ('black',) | ('white',) | ('nan',) | ('unspec', ...)."""
  name, ts, value = dp
  if black and any(rx.search(name) for rx in black):
    return ('black',)
  if white and not any(rx.search(name) for rx in white):
    return ('white',)
  if value != value:
    return ('nan',)
  if ts < 0 and ts != -1:
    return ('unspec',)
  if ts == -1:
    ts = now
  if res:
    ts = int(ts) // res * res
  return ('admit', (name, (ts, value)))


def run_config(cfg, res):
  from vlib import boot, proto, sched
  from vlib.refs import codec
  conf = {'MIN_TIMESTAMP_RESOLUTION': cfg['res'], 'USE_WHITELIST': True}
  if cfg.get('tagnorm'):
    conf['TAG_RELAY_NORMALIZED'] = True
  ns = boot.boot('carbon-cache', conf)
  import carbon.protocols as P
  from carbon.regexlist import WhiteList, BlackList
  from carbon import instrumentation
  settings = ns.settings
  if settings.MIN_TIMESTAMP_RESOLUTION != cfg['res']:
    res.inconc('resolution not applied by the config path')
  vt = sched.VTime()
  vt.base = 1700000000.0
  P.time = vt
  rec = proto.install_recorder()
  wpath = settings['whitelist']
  bpath = settings['blacklist']
  r = gen.rng(cfg['seed'], 'C12', cfg['name'])
  mt = [1000]

  from twisted.internet.task import Clock
  import carbon.service as service
  poll = Clock()
  WhiteList.read_task.clock = poll        # the lists' 10-second pollers run on a virtual clock
  BlackList.read_task.clock = poll
  wired = [False]

  def write_list(path, lines, lst):
    if lines is None:
      if os.path.exists(path):
        os.unlink(path)
    else:
      with open(path, 'w') as f:
        f.write('\n'.join(lines) + ('\n' if lines else ''))
      mt[0] += 10
      os.utime(path, (mt[0], mt[0]))

  def sync_lists():
    if not wired[0]:
      # the daemon's own start-up wiring (USE_WHITELIST is on), with whatever list files exist at that moment
      wired[0] = True
      service.createBaseService(None, settings)
      res.count('daemon_wiring_calls')
    else:
      poll.advance(10)          # the pollers' next tick picks up what changed on disk
      res.count('list_poll_ticks')

  ncases = 400 if cfg['tier'] == 'quick' else 6000
  for case in range(ncases):
    wl = gen_list(r) if r.random() < 0.6 else ([] if r.random() < 0.5 else None)
    bl = gen_list(r) if r.random() < 0.6 else ([] if r.random() < 0.5 else None)
    write_list(wpath, wl, WhiteList)
    write_list(bpath, bl, BlackList)
    sync_lists()
    white = compile_list(wl or [])
    black = compile_list(bl or [])
    batch = []
    for i in range(r.randint(3, 14)):
      name = r.choice(NAMES) if r.random() < 0.8 else gen.metric_name(r)
      c = r.random()
      if c < 0.15:
        ts = -1
      elif c < 0.2:
        ts = r.choice([-1.5, -1.999, -2, -100, -0.5])
      elif c < 0.6:
        ts = r.randrange(0, 2 ** 32)
      else:
        ts = r.randrange(0, 2 ** 31) + r.choice([0.25, 0.5, 0.999, 0.001])
      v = gen.value(r) if r.random() < 0.85 else float('nan')
      if isinstance(v, int) and abs(v) >= 2 ** 53:
        v = float(v)
      batch.append((name, ts, v))
    for protoname in ('line', 'udp', 'pickle'):
      vt.offset += r.choice([0, 1, 60, 0.5])
      now = vt.time()
      exp, nblack, nwhite, unspec = [], 0, 0, 0
      for dp in batch:
        m = model((dp[0], float(dp[1]), float(dp[2])), black, white, cfg['res'], now)
        if m[0] == 'admit':
          exp.append(('must', m[1]))
        elif m[0] == 'black':
          nblack += 1
        elif m[0] == 'white':
          nwhite += 1
        elif m[0] == 'unspec':
          unspec += 1
          exp.append(('opt', dp))
      b0 = instrumentation.stats.get('blacklistMatches', 0)
      w0 = instrumentation.stats.get('whitelistRejects', 0)
      if protoname == 'pickle':
        if r.random() < 0.3 and all(isinstance(t, (int, float)) and t == t for _, t, v in batch) and not any(isinstance(v, float) and v != v for _, _, v in batch):
          stream = codec.encode_pickle_frame_py2([(n, (t, v)) for n, t, v in batch], protocol=r.randrange(0, 3), r=r)    # a python2 sender
          res.count('python2_style_frames')
        else:
          stream = codec.encode_pickle_frame([(n, (t, v)) for n, t, v in batch], protocol=r.randrange(0, 6))
        o = proto.tcp_session(P.MetricPickleReceiver, [stream], rec)
      else:
        lines = []
        for n, t, v in batch:
          vt_ = 'nan' if v != v else ('%d' % v if isinstance(v, int) else codec.spell_float(v, r))
          tt = '%d' % t if isinstance(t, int) else repr(t)
          lines.append(codec.encode_line(n, vt_, tt, None, b'\n'))
        if r.random() < 0.3:
          # a line no rule applies to because it is not a datapoint at all (not UTF-8, wrong field count): it is skipped,
          # nothing else in the stream or datagram is affected (C11), so the rules still apply to every other line
          lines.insert(r.randrange(len(lines) + 1), r.choice([b'servers.caf\xe9.load 1 1\n', b'\xff\xfe 2 2\n', b'only two\n', b'a b c d\n']))
          res.count('batches_with_a_malformed_line')
        if protoname == 'line':
          o = proto.tcp_session(P.MetricLineReceiver, [b''.join(lines)], rec)
        else:
          o = proto.udp_session([b''.join(lines[:5]), b''.join(lines[5:])] if len(lines) > 5 else [b''.join(lines)], rec)
      res.count('batches_executed')
      wit = dict(whitelist=wl, blacklist=bl, batch=[list(map(repr, b)) for b in batch], proto=protoname, res=cfg['res'])
      if o['exc'] is not None:
        res.violation('%s/exception' % protoname, 'exception %r' % o['exc'], wit)
        continue
      got = list(o['got'])
      gi = 0
      bad = None
      # An unspecified datapoint (negative timestamp other than -1) may or may not be admitted, and what it is admitted as
      # may coincide with a specified one: decide by alignment, and use the greedy walk below only to word a failure.
      feas = {len(got)}
      for kind, e in reversed(exp):
        nxt = set()
        for j in range(len(got) + 1):
          if kind == 'must':
            if j < len(got) and j + 1 in feas and proto.same_points([got[j]], [e]) is None:
              nxt.add(j)
          else:
            if j in feas or (j < len(got) and j + 1 in feas and got[j][0] == e[0]):
              nxt.add(j)
        feas = nxt
      aligned = 0 in feas
      if aligned:
        res.count('unspecified_negative_timestamp_admitted', len(got) - sum(1 for k, _ in exp if k == 'must'))
      for kind, e in ([] if aligned else exp):
        if kind == 'must':
          if gi >= len(got):
            bad = ('filtered-wrongly', 'admissible datapoint %r did not reach the pipeline' % (e,))
            break
          g = got[gi]
          why = proto.same_points([g], [e])
          if why:
            # classify: is it a wrongly admitted datapoint, or an altered one?
            if g[0] != e[0]:
              bad = ('admitted-wrongly-or-lost', 'expected %r next, pipeline has %r' % (e, g))
            else:
              bad = ('altered', 'admitted datapoint altered: expected %r got %r (%s)' % (e, g, why))
            break
          if cfg['res'] and not isinstance(g[1][0], int):
            pass   # numeric equality is what the statement requires
          gi += 1
        else:
          if gi < len(got) and got[gi][0] == e[0] and not any(k == 'must' and ee[0] == e[0] and proto.same_points([got[gi]], [ee]) is None for k, ee in exp):
            gi += 1
            res.count('unspecified_negative_timestamp_admitted')
      if bad is None and not aligned:
        bad = ('admitted-wrongly', 'pipeline received unexpected %r' % (got[gi] if gi < len(got) else got,))
      if bad:
        res.violation('%s/%s' % (protoname, bad[0]), '%s; whitelist=%r blacklist=%r res=%d' % (bad[1], wl, bl, cfg['res']), wit)
      db = instrumentation.stats.get('blacklistMatches', 0) - b0
      dw = instrumentation.stats.get('whitelistRejects', 0) - w0
      if db != nblack or dw != nwhite:
        res.violation('%s/counters' % protoname, 'blacklistMatches +%d (model %d), whitelistRejects +%d (model %d)' % (db, nblack, dw, nwhite), wit)
      res.count('model_blacklisted', nblack)
      res.count('model_whitelist_rejected', nwhite)
      res.count('model_admitted', sum(1 for k, _ in exp if k == 'must'))
      res.count('model_unspecified', unspec)
    nfiltered = len(batch) - sum(1 for k, _ in exp if k == 'must')
    res.case(dict(w=wl, b=bl, batch=repr(batch)), nontrivial=(nfiltered >= 1 and nfiltered < len(batch)))
    res.sample(dict(whitelist=wl, blacklist=bl, res=cfg['res'], batch=[repr(b) for b in batch[:4]]), cap=2)


def finalize(merged, tier):
  c = merged['counters']
  out = []
  for k in ('model_blacklisted', 'model_whitelist_rejected', 'model_admitted'):
    if not c.get(k):
      out.append('class %s never produced' % k)
  return out


def classify(v):
  return None
