"""C02 — the cache neither loses nor duplicates datapoints; last write wins; size exact."""
from vlib import gen

PROPERTY = 'C02'
LEVEL = 'exploration'
RULE = ('case = (write strategy, history of store / cache-query / drain operations over <=5 metrics x <=4 timestamps with unique '
        'values, thread schedule); receiver thread = stores + queries through a real CacheManagementHandler, writer thread = '
        'drain_metric() calls; both are real threads executing the real code under a baton scheduler with a scheduling point at '
        'every source line of cache.py/events.py; schedules: baseline, mirrored, every 1-preemption, 2-preemption (strided in '
        'quick), seeded random and PCT; oracle: per-key exactly-once / last-write-wins accounting over the unambiguous history, '
        'sorted batches, query consistency, size == sum(len) at every lock-free scheduling point; non-trivial = execution with '
        '>=1 thread switch and >=1 duplicate timestamp or re-store after a drain; distinct = distinct interleavings (hash of '
        'the (thread, line) sequence) per history')
RULE_MORE = (" Further families per strategy: the real writer loop with backend faults, instrumentation ticks on the reactor thread, histories of 150-300 operations, timesorted with a lag, MIN_TIMESTAMP_RESOLUTION set, and the daemon's start-up (write processor built as setupPipeline does, first datapoint against the writer's first pass).")
RULE_MORE = RULE_MORE + ' Rounds 10-11: a relaybuf family (RELAY_CACHE_METRICS: the resume event stores buffered self-metrics from inside the drain); backend faults carrying an errno.'
RULE = RULE + RULE_MORE
EXHAUSTIVE = {'quick': False, 'thorough': False}
EXHAUSTIVE_OVER = 'all schedules with <=1 preemption of every generated history (and <=2 preemptions for histories marked short)'
ASSUMPTIONS = ['two threads as in production (reactor thread and writer thread); preemption only between source lines of '
               'carbon/cache.py and carbon/events.py', 'bounded preemptions then seeded random schedules']
TIMEOUT = {'quick': 900, 'thorough': 3000}

STRATEGIES = ['sorted', 'max', 'naive', 'timesorted', 'bucketmax', 'random']


def configs(tier, seed):
  n = 2 if tier == 'quick' else 5
  cfgs = []
  for st in STRATEGIES:
    for s in range(n):
      # the last shard of every strategy runs with a small bounded cache (refusals take part in the accounting)
      mx = 3 if s == n - 1 else 'inf'
      cfgs.append(dict(name='%s/%d/max%s' % (st, s, mx), strategy=st, shard=s, max=mx))
    # the drains of the real writer loop, with backend faults: whatever the writer does with a batch after draining it,
    # no datapoint may be handed out twice and no newer value may be overwritten by an older one
    if st == 'timesorted':
      # the strategy that honours MIN_TIMESTAMP_LAG: points on both sides of now - lag in one series
      cfgs.append(dict(name='%s/lag30' % st, strategy=st, shard=7, max='inf', lag=30))
    # MIN_TIMESTAMP_RESOLUTION is the listeners' business (C12): what the cache hands out is what it was given, whatever
    # that setting says
    cfgs.append(dict(name='%s/res10' % st, strategy=st, shard=8, max='inf', res=10))
    cfgs.append(dict(name='%s/writer' % st, strategy=st, mode='writer', max='inf'))
    # the reactor thread's other dealings with the cache: the instrumentation tick reads the size and stores self-metrics
    cfgs.append(dict(name='%s/ticks' % st, strategy=st, mode='ticks', max='inf'))
    # daemon start-up: the pipeline's write processor is built (as service.setupPipeline does), then the receiving thread's
    # first datapoint and the writer thread's first pass meet - both must end up talking to the same cache
    cfgs.append(dict(name='%s/startup' % st, strategy=st, mode='startup', max='inf'))
    # RELAY_CACHE_METRICS: self-metrics wait in the relay part's buffer while no destination is up and are stored into the
    # cache by a handler of the resume event - that is, from inside the drain that made room, on the writer thread
    cfgs.append(dict(name='%s/relaybuf' % st, strategy=st, mode='relaybuf', max=4))
    # long histories (hundreds of operations, dozens of drains) under a handful of schedules
    cfgs.append(dict(name='%s/long' % st, strategy=st, mode='long', max='inf' if STRATEGIES.index(st) % 2 else 40))
  return cfgs


def gen_writer_workload(r):
  nm = r.randint(1, 4)
  metrics = ['m%d' % i for i in range(nm)]
  ops = []
  for i in range(r.randint(4, 12)):
    c = r.random()
    if c < 0.7:
      ops.append(('store', r.choice(metrics), 100 + r.randrange(3) + (0.5 if r.random() < 0.15 else 0)))
    elif c < 0.85:
      ops.append(('query', r.choice(metrics)))
    else:
      ops.append(('sleep', r.choice([0.05, 0.5, 1.5])))
  ops.append(('sleep', 2.5))
  for i in range(r.randint(0, 3)):
    ops.append(('store', r.choice(metrics), 100 + r.randrange(3)))
  ops.append(('sleep', 2.5))
  ops.append(('stop',))
  return ops


def run_startup(cfg, res, ns):
  import carbon.cache as cc
  import carbon.writer as writer
  from carbon import state, events, pipeline
  from carbon.pipeline import Processor
  from vlib import sched as S, memdb
  if pipeline.run_pipeline not in events.metricReceived.handlers:
    events.metricReceived.addHandler(pipeline.run_pipeline)
  r = gen.rng(cfg['seed'], 'C02s', cfg['name'])

  def hot(fr):       # switches only where the cache singleton is looked up or created (no lock is held there)
    return fr.f_code.co_filename.endswith('cache.py') and fr.f_code.co_name in ('MetricCache', 'cache', '__init__', 'process')
  for trial in range(40 if cfg['tier'] == 'quick' else 400):
    cc._Cache = None
    memdb.reset()
    state.database.files.clear()
    state.pipeline_processors = [Processor.plugins['write']()]       # what service.setupPipeline(['write']) does at start-up
    stored = []
    n = r.randint(1, 4)

    def recv():
      for k in range(n):
        v = float(1000 * trial + k + 1)
        events.metricReceived('s%d' % (k % 2), (1000 + k, v))
        stored.append(v)

    def wr():
      writer.writeCachedDataPoints()
    sc = S.Scheduler(S.TargetedPolicy(gen.rng(r.random(), 'tp'), hot, p_hot=0.5, p_cold=0.0, q=0.5), trace_files=('cache.py',), step_cap=20000)
    order = [('recv', recv), ('writer', wr)]
    if trial % 2:
      order.reverse()
    for name, fn in order:
      sc.spawn(name, fn)
    err = sc.run(30)
    res.count('schedules_executed')
    res.count('startup_races')
    if err is not None:
      res.inconc('%s: %s' % (type(err).__name__, err))
      return
    writer.writeCachedDataPoints()                  # a later pass of the writer drains whatever the daemon's cache holds
    written = set(p[1] for e in memdb.CALL_LOG if e['op'] == 'write' and e['outcome'] == 'ok' for p in e['args'])
    left = set(v for pts in cc.MetricCache().values() for v in pts.values())
    missing = sorted(set(stored) - written - left)
    res.case((trial, sc.trace_hash), nontrivial=sc.switches >= 1)
    if missing:
      res.violation(cfg['strategy'] + '/startup/lost', 'datapoints %r received right after start-up are neither written nor in the daemon\'s cache (the receiving '
                    'side and the writer do not share one cache?) [%d switches]' % (missing, sc.switches), dict(trial=trial))
      return


def run_writer_config(cfg, res, world):
  from vlib import sched as S
  r = gen.rng(cfg['seed'], 'C02w', cfg['name'])
  label = cfg['strategy'] + '/writer'
  excs = ['IOError', 'OSError', 'ValueError', 'KeyError', 'EINTR', 'EAGAIN', 'ENOSPC', 'EIO']
  seen = set()
  for w in range(2 if cfg['tier'] == 'quick' else 8):
    ops = gen_writer_workload(r)
    keys = [(o[1], o[2]) for o in ops if o[0] == 'store']
    has_dups = len(set(keys)) < len(keys)
    plans = [{}] + [{i: excs[(i + w) % 4]} for i in range(8)] + [{i: excs[(i + j) % 4], j: excs[i % 4]} for i in range(6) for j in range(i + 1, 7, 2)]
    for _ in range(10 if cfg['tier'] == 'quick' else 40):
      plans.append({i: r.choice(excs) for i in range(30) if r.random() < 0.25})
    for plan in plans:
      for policy, desc in ((S.DeviationPolicy({}), 'baseline'),
                           (S.RandomPolicy(gen.rng(r.random(), 'rp'), p=r.choice([0.05, 0.2, 0.5])), 'random')):
        h = world.run(ops, ('loop',), policy=policy, fault_plan=plan, timeout=60)
        res.count('schedules_executed')
        res.count('writer_loop_schedules')
        if h.sched_error is not None:
          res.inconc('%s: %s' % (type(h.sched_error).__name__, h.sched_error))
          return
        nf = sum(1 for e in h.backend if str(e['outcome']).startswith('raise:') and e['outcome'] != 'raise:nofile')
        res.count('writer_loop_backend_faults_reached', nf)
        for k, v in h.window_hits.items():
          res.count('window_' + k, v)
        res.count('lockfree_invariant_evaluations', h.lockfree_points)
        key = (hash(repr(ops)), repr(sorted(plan.items())), h.trace_hash)
        if key not in seen:
          seen.add(key)
          res.case(hash(key), nontrivial=(h.switches >= 2 and has_dups and nf >= 1))
        else:
          res.evaluations += 1
        for sig, msg in oracle(h):
          res.violation(label + '/' + sig, '%s [strategy %s, real writer loop, fault plan %r, schedule %s deviations=%r] history=%r' % (
            msg, cfg['strategy'], plan, desc, h.deviations, ops), dict(ops=ops, plan=plan, deviations=h.deviations),
            case=dict(ops=ops, plan=plan, deviations=h.deviations))


def gen_history(r, short=False, ticks=False, lag=0):
  if lag:
    ops, ndr = gen_history(r, short=short)
    # timestamps around the virtual now (1000000): old enough to be drained, and younger than the lag
    out = []
    for o in ops:
      if o[0] == 'store':
        out.append(('store', o[1], (999900 if r.random() < 0.5 else 1000000 - r.choice([0, 5, 29, 31])) + (o[2] - 100)))
      else:
        out.append(o)
      if r.random() < 0.1:
        out.append(('sleep', r.choice([1, 10, 31])))
    return out, ndr + 1
  if ticks:
    ops, ndr = gen_history(r, short=True)
    for _ in range(r.randint(1, 2)):
      ops.insert(r.randrange(1, len(ops) + 1), ('tick',))
    return ops, ndr + r.randint(0, 2)
  nm = r.randint(1, 5)
  nt = r.randint(1, 4)
  metrics = ['m%d' % i for i in range(nm)]
  if r.random() < 0.1:
    metrics[r.randrange(nm)] = ''      # the pickle listener accepts a series whose name is the empty string
  n = r.randint(4, 9) if short else r.randint(8, 24)
  ops = []
  for _ in range(n):
    c = r.random()
    if c < 0.75:
      ops.append(('store', r.choice(metrics), 100 + r.randrange(nt) + (0.5 if r.random() < 0.15 else 0)))
      if r.random() < 0.05:
        ops[-1] = ('store', ops[-1][1], r.choice([1727864000000, 253402300800, 10 ** 15, 0]) + r.randrange(2))
    elif c < 0.9:
      ops.append(('query', r.choice(metrics + ['never.stored'])))
    else:
      ops.append(('bulk', r.sample(metrics + ['never.stored'], r.randint(1, nm))))
  ndr = r.randint(1, 3) if short else r.randint(2, nm + 3)
  return ops, ndr


def explore(world, res, ops, ndr, r, tier, oracle, short, label):
  """Runs one history under many schedules; oracle(h) -> list of (sig, msg)."""
  from vlib import sched as S
  seen = set()
  state = dict(stop=False, n=0)

  def one(policy, desc):
    h = world.run(ops, ('drains', ndr), policy=policy)
    state['n'] += 1
    res.count('schedules_executed')
    res.maxc('max_decisions_in_a_schedule', h.decisions)
    for k, v in h.window_hits.items():
      res.count('window_' + k, v)
    res.count('exceptions_seen_in_store_or_drain', len(h.exceptions))
    res.count('lockfree_invariant_evaluations', h.lockfree_points)
    if h.sched_error is not None:
      kind = type(h.sched_error).__name__
      if kind == 'Deadlock':
        res.violation(label + '/deadlock', 'threads deadlocked: %s' % h.sched_error, dict(ops=ops, deviations=h.deviations))
      else:
        res.inconc('%s: %s' % (kind, h.sched_error))
      state['stop'] = True
      return h
    nontriv = h.switches >= 2 and has_dups
    key = (hist_key, h.trace_hash)
    if key not in seen:
      seen.add(key)
      res.case(hash(key), nontrivial=nontriv)
    else:
      res.evaluations += 1
    for sig, msg in oracle(h):
      res.violation(label + '/' + sig, '%s [strategy %s, schedule %s deviations=%r] history=%r drains=%d' % (
        msg, label, desc, h.deviations, ops, ndr), dict(ops=ops, ndr=ndr, deviations=h.deviations),
        case=dict(ops=ops, ndr=ndr, deviations=h.deviations))
    return h

  hist_key = hash(repr((ops, ndr)))
  keys = [(o[1], o[2]) for o in ops if o[0] == 'store']
  has_dups = len(set(keys)) < len(keys)
  h0 = one(S.DeviationPolicy({}), 'baseline')
  if state['stop']:
    return
  one(S.DeviationPolicy({0: 1}), 'mirror')
  n0 = h0.decisions
  # every 1-preemption schedule
  stride2 = 1 if (short and tier == 'thorough') else (3 if short else 11)
  for i in range(n0 + 2):
    if state['stop']:
      return
    hi = one(S.DeviationPolicy({i: 1}), 'preempt@%d' % i)
    if short or tier == 'thorough':
      for j in range(i + 1, hi.decisions + 1, stride2):
        if state['stop']:
          return
        one(S.DeviationPolicy({i: 1, j: 1}), 'preempt@%d,%d' % (i, j))
  for k in range(20 if tier == 'quick' else 60):
    p = r.choice([0.05, 0.2, 0.5])
    one(S.RandomPolicy(gen.rng(r.random(), 'rp'), p=p), 'random(p=%s)' % p)
  for k in range(10 if tier == 'quick' else 30):
    one(S.PCTPolicy(gen.rng(r.random(), 'pct'), 2, max(4, n0), d=r.choice([1, 2, 3])), 'pct')


def oracle(h):
  from vlib import cachesim
  out = []
  # exceptions raised by store()/drain_metric() are C17's subject ("never fails"); here they matter only through
  # their effect on the accounting below
  for name, e in h.thread_exc:
    out.append(('thread-exception/%s' % type(e).__name__, 'thread %s died with %r' % (name, e)))
  if h.size_violation:
    out.append(('size-mismatch', 'size=%(size)d but %(actual)d datapoints held while the lock is free (step %(step)d, thread %(thread)s at %(where)s)' % h.size_violation))
  if h.final_size != sum(len(v) for v in h.final.values()):
    out.append(('size-mismatch-final', 'final size=%d but %d datapoints held' % (h.final_size, sum(len(v) for v in h.final.values()))))
  if h.rest_exc is not None:
    out.append(('exception/rest-drain/%s' % type(h.rest_exc).__name__, 'draining the rest raised %r' % (h.rest_exc,)))
  out.extend(cachesim.check_conservation(h))
  out.extend(cachesim.check_queries(h))
  return out


def run_config(cfg, res):
  from vlib import boot, cachesim
  conf = {'CACHE_WRITE_STRATEGY': cfg['strategy'], 'MAX_CACHE_SIZE': cfg.get('max', 'inf'), 'USE_FLOW_CONTROL': False,
          'MIN_TIMESTAMP_LAG': cfg.get('lag', 0), 'MIN_TIMESTAMP_RESOLUTION': cfg.get('res', 0)}
  if cfg.get('mode') == 'relaybuf':
    conf.update({'USE_FLOW_CONTROL': True, 'RELAY_CACHE_METRICS': True, 'DYNAMIC_ROUTER': True, 'RELAY_METHOD': 'consistent-hashing',
                 'DESTINATIONS': '127.0.0.1:2004:a'})
  ns = boot.boot('carbon-cache', conf)
  if cfg.get('mode') == 'relaybuf':
    world = cachesim.World(ns, full_pipeline=True)
    r = gen.rng(cfg['seed'], 'C02r', cfg['name'])
    for i in range(3 if cfg['tier'] == 'quick' else 12):
      ops, ndr = gen_history(r, short=False)
      for _ in range(r.randint(3, 8)):
        ops.insert(r.randrange(0, len(ops) + 1), ('relaybuf',))
      res.count('histories_with_relay_buffer')
      explore(world, res, ops, ndr + 3, r, 'quick', oracle, False, cfg['strategy'] + '/relaybuf')
    return
  if cfg.get('mode') == 'writer':
    return run_writer_config(cfg, res, cachesim.World(ns, trace_files=('cache.py', 'events.py', 'writer.py')))
  if cfg.get('mode') == 'startup':
    return run_startup(cfg, res, ns)
  if cfg.get('mode') == 'long':
    from vlib import sched as S
    world = cachesim.World(ns)
    r = gen.rng(cfg['seed'], 'C02l', cfg['name'])
    for i in range(6 if cfg['tier'] == 'quick' else 40):
      nm = r.randint(2, 8)
      metrics = ['m%d' % k for k in range(nm)]
      ops = []
      for _ in range(r.randint(150, 300)):
        c = r.random()
        if c < 0.8:
          ops.append(('store', r.choice(metrics), 100 + r.randrange(12) + (0.5 if r.random() < 0.1 else 0)))
        elif c < 0.93:
          ops.append(('query', r.choice(metrics)))
        else:
          ops.append(('bulk', r.sample(metrics, r.randint(1, nm))))
      ndr = r.randint(20, 60)
      res.count('long_histories')
      for policy, desc in [(S.DeviationPolicy({}), 'baseline'), (S.DeviationPolicy({0: 1}), 'mirror')] + \
                          [(S.RandomPolicy(gen.rng(r.random(), 'rp'), p=p), 'random(p=%s)' % p) for p in (0.02, 0.05, 0.2, 0.5, 0.5)]:
        h = world.run(ops, ('drains', ndr), policy=policy, timeout=120)
        res.count('schedules_executed')
        res.maxc('max_decisions_in_a_schedule', h.decisions)
        for k, v in h.window_hits.items():
          res.count('window_' + k, v)
        res.count('lockfree_invariant_evaluations', h.lockfree_points)
        if h.sched_error is not None:
          res.inconc('%s: %s' % (type(h.sched_error).__name__, h.sched_error))
          return
        res.case((hash(repr(ops)), h.trace_hash), nontrivial=h.switches >= 2)
        for sig, msg in oracle(h):
          res.violation(cfg['strategy'] + '/long/' + sig, '%s [strategy %s, schedule %s deviations=%r] history of %d operations, %d drains' % (
            msg, cfg['strategy'], desc, h.deviations, len(ops), ndr), dict(ops=ops, ndr=ndr, deviations=h.deviations),
            case=dict(ops=ops, ndr=ndr, deviations=h.deviations))
    return
  if cfg.get('mode') == 'ticks':
    world = cachesim.World(ns, trace_files=('cache.py', 'events.py', 'instrumentation.py'))
    r = gen.rng(cfg['seed'], 'C02t', cfg['name'])
    for i in range(2 if cfg['tier'] == 'quick' else 8):
      ops, ndr = gen_history(r, ticks=True)
      res.count('histories_with_instrumentation_ticks')
      # (schedules with a tick are long: one preemption at every point plus random schedules in both tiers; thorough runs
      # more histories)
      explore(world, res, ops, ndr, r, 'quick', oracle, False, cfg['strategy'] + '/ticks')
    return
  world = cachesim.World(ns)
  r = gen.rng(cfg['seed'], 'C02', cfg['name'])
  nh = (3, 3) if cfg['tier'] == 'quick' else (8, 10)
  for i in range(nh[0]):
    ops, ndr = gen_history(r, short=True, lag=cfg.get('lag', 0))
    explore(world, res, ops, ndr, r, cfg['tier'], oracle, True, cfg['strategy'])
    res.sample(dict(strategy=cfg['strategy'], ops=ops, drains=ndr), cap=2)
  for i in range(nh[1]):
    ops, ndr = gen_history(r, short=False, lag=cfg.get('lag', 0))
    explore(world, res, ops, ndr, r, cfg['tier'], oracle, False, cfg['strategy'])


def finalize(merged, tier):
  c = merged['counters']
  out = []
  for k in ('schedules_executed', 'window_store_during_drain_call', 'window_store_between_pop_and_spacecheck',
            'lockfree_invariant_evaluations'):
    if not c.get(k):
      out.append('monitor/window counter %s is zero' % k)
  return out


def classify(v):
  return None
