"""C13 — the default unpickler cannot be made to load or call arbitrary globals."""
import struct
import sys
import types

from vlib import gen

PROPERTY = 'C13'
LEVEL = 'exploration'
RULE = ('payload = pickle opcode program referencing a global through one route (GLOBAL, STACK_GLOBAL, INST, OBJ, NEWOBJ, '
        'NEWOBJ_EX, REDUCE, BUILD, EXT1/2/4), bare, nested at depth 1-5 in a well-formed datapoint list, or after a valid '
        'frame; lookup sweep over every (module, attribute) of every module loaded in the booted daemon process; each '
        'payload is framed and fed to the real MetricPickleReceiver and CacheManagementHandler while an audit hook, '
        'canary objects and a result-type walker watch; non-trivial = payload that references a global; distinct = '
        'distinct payload bytes')
RULE_MORE = (' Also: layering of program / instance sections, connections whose set-up failed part-way, several pickles in one frame, and the same routes under python -O / -OO.')
RULE_MORE = RULE_MORE + " Rounds 10-11: module / attribute names and number literals that are str.format or % templates; any look-up in the canary module and any read of a function's __globals__ / __code__ while a payload is handled is a violation."
RULE = RULE + RULE_MORE
EXHAUSTIVE = {'quick': True, 'thorough': True}
EXHAUSTIVE_OVER = 'all (module, attribute) pairs of every module in sys.modules of the booted process via GLOBAL and STACK_GLOBAL'
TIMEOUT = {'quick': 300, 'thorough': 900}
ASSUMPTIONS = ['allow-list hard-coded in the check: copy_reg._reconstructor, __builtin__.object (both unimportable on Python 3)',
               'lookup sweep is lookup-only (STOP right after the global) so a broken tree never calls anything dangerous; '
               'call routes target canaries and harmless classes only']

ALLOWED = {('copy_reg', '_reconstructor'), ('__builtin__', 'object')}
ALLOWED_MODULES = {'copy_reg', '__builtin__'}
PLAIN = (type(None), bool, int, float, str, bytes)


def configs(tier, seed):
  cfgs = [dict(name='routes', mode='routes'), dict(name='selftest-insecure', mode='selftest', insecure=True)]
  # connections whose set-up failed part-way (a socket option refused, the peer already gone, a logging error): twisted
  # logs the error and may keep delivering data to the half-initialised protocol - it must not unpickle with anything
  # but the safe unpickler (failing outright is fine)
  # the same routes in an interpreter started with -O / -OO (asserts and docstrings compiled away)
  cfgs.append(dict(name='routes/python-O', mode='routes', pyopt=1))
  cfgs.append(dict(name='routes/python-OO', mode='routes', pyopt=2))
  for i, fault in enumerate(['getPeer', 'setTcpKeepAlive', 'idle-timeout', 'log']):
    cfgs.append(dict(name='setup-fault/%s' % fault, mode='routes', setup_fault=fault))
  # the setting itself, spelled in every way a carbon.conf may say "off" (or fail to): the daemon must either refuse to
  # start or run with the safe unpickler
  for i, sp in enumerate(['False', 'false', 'FALSE', 'no', 'off', '0', 'False  ; not on this host', 'False # comment', 'disabled',
                          'none', 'f', '', 'No', 'Off', '00', 'False False']):
    cfgs.append(dict(name='spelling/%d' % i, mode='spelling', spelling=sp))
  # layering of the sections: the running instance's own section wins over the program section, another instance's
  # section does not count; wherever the effective value is "off" the safe unpickler must be in use
  for i, (prog, inst, other) in enumerate([('True', 'False', None), ('True', 'no', None), ('yes', '0', 'True'), ('False', None, 'True'),
                                           (None, 'False', 'True'), ('True', 'off', 'on')]):
    cfgs.append(dict(name='layering/%d' % i, mode='spelling', spelling='layered', layers=[prog, inst, other]))
  nshard = 8 if tier == 'quick' else 16
  for s in range(nshard):
    cfgs.append(dict(name='sweep/%d' % s, mode='sweep', shard=s, nshard=nshard, stride=1))
  return cfgs


# ----------------------------------------------------------------------------- opcode helpers
def u(s):          # unicode push, protocol-0 style
  return b'V' + s.encode('raw-unicode-escape') + b'\n'


def su(s):         # SHORT_BINUNICODE
  b = s.encode('utf-8', 'surrogatepass')
  if len(b) < 256:
    return b'\x8c' + bytes([len(b)]) + b
  return b'X' + struct.pack('<I', len(b)) + b


def op_global(mod, name):
  return b'c' + mod.encode('utf-8', 'replace') + b'\n' + name.encode('utf-8', 'replace') + b'\n'


def op_stack_global(mod, name):
  return su(mod) + su(name) + b'\x93'


def routes_for(mod, name):
  """(label, ops leaving one object on the stack) for every opcode route to the global."""
  g = op_global(mod, name)
  sg = op_stack_global(mod, name)
  out = [
    ('GLOBAL', g), ('STACK_GLOBAL', sg),
    ('GLOBAL+REDUCE', g + b')R'), ('STACK_GLOBAL+REDUCE', sg + b')R'),
    ('GLOBAL+REDUCE(args)', g + b'(I1\nV x\ntR'),
    ('INST', b'(i' + mod.encode() + b'\n' + name.encode() + b'\n'),
    ('INST(args)', b'(I1\ni' + mod.encode() + b'\n' + name.encode() + b'\n'),
    ('OBJ', b'(' + g + b'o'), ('OBJ(args)', b'(' + sg + b'I1\no'),
    ('NEWOBJ', g + b')\x81'), ('NEWOBJ(sg)', sg + b')\x81'),
    ('NEWOBJ_EX', g + b')}\x92'), ('NEWOBJ_EX(sg)', sg + b')}\x92'),
    ('BUILD-dict', g + b')\x81}V a\nI1\nsb'), ('BUILD-setstate', g + b')R(I1\ntb'),
    ('BUILD-slots', g + b')\x81(}}V a\nI1\nstb'),
    ('GLOBAL-memo', g + b'p0\n0g0\n'), ('GLOBAL-binput', sg + b'q\x01h\x01' + b'0h\x01'),
    ('REDUCE-via-memo', g + b'p1\n0g1\n)R'),
  ]
  return out


def wrap(payload_ops, depth, style):
  """Embed ops (leaving one object) at `depth` inside a well-formed datapoint list."""
  if depth == 0:
    return payload_ops + b'.'
  inner = payload_ops
  for _ in range(depth - 1):
    inner = b'(' + inner + b'l' if style == 'list' else b'(' + inner + b't'
  # [("m", (1, <obj>))]  /  [(<obj>, (1, 2))]  / [("m", (<obj>, 2))]
  if style == 'name':
    return b'(lp0\n(' + inner + b'(I1\nI2\ntta.'
  if style == 'ts':
    return b'(lp0\n(' + u('m') + b'(' + inner + b'I2\ntta.'
  return b'(lp0\n(' + u('m') + b'(I1\n' + inner + b'tta.'


ERROR_PREFIXES = [
  b'U\x04caf\xe9',                      # SHORT_BINSTRING, latin-1 bytes (what a Python 2 sender produces)
  b'T\x04\x00\x00\x00caf\xe9',          # BINSTRING
  b"S'caf\xe9'\n",                      # STRING
  b'X\x02\x00\x00\x00\xed\xa0',         # BINUNICODE, invalid utf-8
  b'X\x01\x00\x00\x00\xff',
  b'\x8c\x02\xc3\x28',                  # SHORT_BINUNICODE, invalid utf-8
  b'V\\ud800\n',                        # UNICODE, lone surrogate
  b"S'\\xe9'\n",
]


def frame(p):
  return struct.pack('!I', len(p)) + p


class Canary(object):
  log = []


class CanaryModule(types.ModuleType):
  """Any look-up of a public name in this module while a payload is being handled is recorded: nothing the default
  unpickler or its callers do with a refused payload has any business here (not even formatting a log line)."""

  def __getattribute__(self, name):
    if Watch.armed and not name.startswith('__'):
      Canary.log.append(('looked-up', name))
    return types.ModuleType.__getattribute__(self, name)


def make_canary_module():
  m = CanaryModule('verif_canary')

  def boom(*a, **k):
    Canary.log.append(('called', 'boom'))
    return 'boomed'

  class Bomb(object):
    def __new__(cls, *a, **k):
      Canary.log.append(('new', 'Bomb'))
      return object.__new__(cls)

    def __init__(self, *a, **k):
      Canary.log.append(('init', 'Bomb'))

    def __setstate__(self, st):
      Canary.log.append(('setstate', 'Bomb'))

    def __reduce__(self):
      Canary.log.append(('reduce', 'Bomb'))
      return (boom, ())

  class Slotted(object):
    __slots__ = ('a',)

  m.boom = boom
  m.Bomb = Bomb
  m.Slotted = Slotted
  m.sub = types.SimpleNamespace(boom=boom)
  return m


def walk_plain(obj, depth=0):
  if depth > 50:
    return True
  if isinstance(obj, PLAIN):
    return True
  if type(obj) in (tuple, list, set, frozenset):
    return all(walk_plain(x, depth + 1) for x in obj)
  if type(obj) is dict:
    return all(walk_plain(k, depth + 1) and walk_plain(v, depth + 1) for k, v in obj.items())
  return False


class Watch(object):
  armed = False
  events = []


def audit(event, args):
  if not Watch.armed:
    return
  if event == 'import':
    Watch.events.append(('import', args[0]))
  elif event == 'object.__getattr__' and len(args) > 1 and args[1] in ('__globals__', '__builtins__', '__closure__', '__code__'):
    # reading a function's globals / code while a payload is handled: the way out of any sandbox (format-string fields,
    # getattr chains) - nothing on the listener's path does that
    Watch.events.append(('introspection', '%s of %.80r' % (args[1], args[0])))
  elif event in ('pickle.find_class', 'os.system', 'subprocess.Popen', 'os.exec', 'os.posix_spawn', 'os.fork', 'exec', 'compile'):
    Watch.events.append((event, repr(args)[:200]))


class LoadsProxy(object):
  """Wraps whatever get_unpickler() returned so that the value produced by loads() is observable."""

  def __init__(self, real, sink):
    self.real = real
    self.sink = sink

  def loads(self, data):
    obj = self.real.loads(data)
    self.sink.append(obj)
    if not walk_plain(obj):
      # already a violation (reported by the caller); do not let the protocol iterate over / index into an arbitrary
      # object (an infinite iterator such as tempfile._name_sequence would hang the run)
      raise ValueError('verif: non-plain unpickling result withheld from the protocol')
    return obj


def run_config(cfg, res):
  # random bytes can spell LONG_BINPUT with a huge index, which makes CPython's unpickler allocate gigabytes (a pickle
  # bomb: a hang, not an exception, hence outside this property); an address-space limit turns it into a MemoryError
  import resource
  resource.setrlimit(resource.RLIMIT_AS, (4 << 30, 4 << 30))
  from vlib import boot
  if cfg['mode'] == 'spelling':
    try:
      if cfg.get('layers'):
        prog, inst, other = cfg['layers']
        ns = boot.boot('carbon-cache', {'USE_INSECURE_UNPICKLER': prog} if prog is not None else {}, instance='b',
                       instance_conf=({'USE_INSECURE_UNPICKLER': inst, 'LINE_RECEIVER_PORT': 2103} if inst is not None else {'LINE_RECEIVER_PORT': 2103}),
                       extra_sections=[('cache:c', {'USE_INSECURE_UNPICKLER': other})] if other is not None else None)
      else:
        ns = boot.boot('carbon-cache', {'USE_INSECURE_UNPICKLER': cfg['spelling']}, instance='b',
                       instance_conf={'USE_INSECURE_UNPICKLER': cfg['spelling']} if cfg['name'].endswith(('1', '3', '5', '7')) else None)
    except (Exception, SystemExit) as e:
      res.count('daemon_refused_to_start')
      res.case('spelling:' + cfg['spelling'], nontrivial=True)
      res.sample(dict(spelling=cfg['spelling'], outcome='refused to start: %r' % (e,)))
      return
    res.count('daemon_started_with_spelling')
  else:
    ns = boot.boot('carbon-cache', {'USE_INSECURE_UNPICKLER': bool(cfg.get('insecure'))})
  from twisted.internet.testing import StringTransport
  import carbon.protocols as protocols
  from carbon import events
  canary = make_canary_module()
  sys.modules['verif_canary'] = canary
  import copyreg
  copyreg.add_extension('verif_canary', 'boom', 0x7fff0001)
  copyreg.add_extension('verif_canary', 'Bomb', 0x11)
  copyreg.add_extension('os', 'getpid', 0x1234)
  received = []
  events.metricReceived.addHandler(lambda m, d: received.append((m, d)))
  sys.addaudithook(audit)
  results = []

  fault = cfg.get('setup_fault')

  class FaultyTransport(StringTransport):
    def getPeer(self):
      if fault == 'getPeer':
        raise OSError(107, 'Transport endpoint is not connected')
      return StringTransport.getPeer(self)

    def setTcpKeepAlive(self, flag):
      if fault == 'setTcpKeepAlive':
        raise OSError(22, 'Invalid argument')

    def getHandle(self):
      if fault == 'setTcpKeepAlive':
        raise OSError(22, 'Invalid argument')
      raise AttributeError('getHandle')

  def connect(p):
    if not fault:
      p.makeConnection(StringTransport())
    else:
      import carbon.log as clog
      saved = (ns.settings.get('METRIC_CLIENT_IDLE_TIMEOUT'), clog.listener, clog.query)
      try:
        if fault == 'idle-timeout':
          ns.settings['METRIC_CLIENT_IDLE_TIMEOUT'] = -1          # reactor.callLater refuses a negative delay
        if fault == 'log':
          def boom(*a, **k):
            raise IOError('log directory gone')
          clog.listener = clog.query = boom
        try:
          p.makeConnection(FaultyTransport())
          res.count('connection_setups_that_survived_the_fault')
        except Exception:
          res.count('connection_setups_failed')
      finally:
        ns.settings['METRIC_CLIENT_IDLE_TIMEOUT'], clog.listener, clog.query = saved
    if hasattr(p, 'unpickler'):
      p.unpickler = LoadsProxy(p.unpickler, results)
    return p

  def new_pickle_receiver():
    return connect(protocols.MetricPickleReceiver())

  def new_cache_handler():
    return connect(protocols.CacheManagementHandler())

  state = dict(pr=new_pickle_receiver(), ch=new_cache_handler(), n=0)
  # warm-up (lazy imports of the logging path) before arming
  for k in ('pr', 'ch'):
    try:
      state[k].dataReceived(frame(b'garbage'))
    except Exception:
      pass
  state['ch'] = new_cache_handler()

  def feed(payload, referenced, label, expect_fire=False):
    """Feed one payload to both pickle-speaking protocols under the monitors."""
    state['n'] += 1
    if state['n'] % 500 == 0:
      state['pr'] = new_pickle_receiver()
    for port in ('pickle-listener', 'cache-query'):
      del Watch.events[:]
      del Canary.log[:]
      del results[:]
      del received[:]
      mods_before = len(sys.modules)
      Watch.armed = True
      try:
        if port == 'pickle-listener':
          if getattr(state['pr'].transport, 'disconnecting', False):
            state['pr'] = new_pickle_receiver()
          state['pr'].dataReceived(frame(payload))
        else:
          try:
            state['ch'].dataReceived(frame(payload))
          except Exception:
            res.count('cache_query_port_exceptions')   # no handler there: connection dropped (not C13's subject)
            state['ch'] = new_cache_handler()
      except Exception as e:
        res.count('listener_exceptions')               # C11's subject, not C13's
        state['pr'] = new_pickle_receiver()
      finally:
        Watch.armed = False
      res.count('payloads_fed')
      if expect_fire:
        if Canary.log or any(not walk_plain(o) for o in results):
          res.count('selftest_monitor_fired')
        continue
      sig = None
      refmods = set(m for m, _ in referenced)
      for ev in Watch.events:
        if ev[0] == 'import':
          if ev[1] in ALLOWED_MODULES:
            continue
          if ev[1] in refmods or ev[1].split('.')[0] in refmods:
            sig, msg = 'imported-referenced-module', 'import of %r triggered by payload' % ev[1]
          else:
            res.count('unrelated_imports_seen')
        elif ev[0] == 'pickle.find_class':
          sig, msg = 'permissive-find_class-ran', 'pickle.find_class audit event %s: the permissive base implementation ran' % ev[1]
        else:
          sig, msg = 'dangerous-audit-event/' + ev[0], 'audit event %s %s during unpickling' % ev
      if Canary.log:
        sig, msg = 'canary/' + Canary.log[0][0], 'canary fired: %r' % Canary.log[:3]
      for o in results:
        if not walk_plain(o):
          sig, msg = 'non-plain-result', 'loads() returned non-plain data: %.200r' % (o,)
      if len(sys.modules) != mods_before:
        newm = len(sys.modules) - mods_before
        if sig is None and any(m in sys.modules for m in refmods if m not in PRELOADED):
          sig, msg = 'new-module-loaded', '%d new sys.modules entries after payload' % newm
      if received and referenced:
        for m, d in received:
          if not isinstance(m, str) or not walk_plain(d):
            sig, msg = 'non-plain-datapoint-ingested', 'ingested %r %r' % (m, d)
      if sig:
        res.violation('%s/%s/%s' % (port, label.split('@')[0], sig), '%s via %s on %s; payload %r' % (msg, label, port, payload[:120]),
                      dict(payload=payload.hex(), label=label, port=port))
    res.case(payload.hex() if len(payload) < 200 else hash(payload), nontrivial=bool(referenced))

  PRELOADED = set(sys.modules)

  if cfg['mode'] == 'selftest':
    # insecure unpickler: the monitors must fire (otherwise they are blind)
    for label, ops in routes_for('verif_canary', 'boom')[:5] + routes_for('verif_canary', 'Bomb')[:12]:
      feed(wrap(ops, 0, 'value'), [('verif_canary', 'x')], 'selftest/' + label, expect_fire=True)
    if not res.counters.get('selftest_monitor_fired'):
      res.inconc('monitor self-test: canaries/result walker did not fire under USE_INSECURE_UNPICKLER')
    res.sample(dict(selftest_fired=res.counters.get('selftest_monitor_fired', 0)))
    return

  if cfg['mode'] == 'spelling':
    for mod, name in [('verif_canary', 'boom'), ('verif_canary', 'Bomb'), ('builtins', 'getattr'), ('os', 'getpid')]:
      for label, ops in routes_for(mod, name):
        feed(wrap(ops, 0, 'value'), [(mod, name)], 'spelling/' + label)
        feed(wrap(ops, 2, 'value'), [(mod, name)], 'spelling-nested/' + label)
    res.sample(dict(spelling=cfg['spelling'], outcome='started'))
    return

  if cfg['mode'] == 'sweep':
    pairs = []
    for mname in sorted(sys.modules):
      mod = sys.modules[mname]
      if mod is None:
        continue
      try:
        attrs = sorted(dir(mod))
      except Exception:
        continue
      for a in attrs:
        pairs.append((mname, a))
    res.maxc('max_modules_loaded', len(sys.modules))
    res.maxc('max_pairs_total', len(pairs))
    mine = pairs[cfg['shard']::cfg['nshard']][::cfg['stride']]
    for i, (mname, a) in enumerate(mine):
      if '\n' in mname or '\n' in a:
        continue
      feed(op_global(mname, a) + b'.', [(mname, a)], 'sweep/GLOBAL')
      feed(b'\x80\x04' + op_stack_global(mname, a) + b'.', [(mname, a)], 'sweep/STACK_GLOBAL')
      res.count('pairs_swept')
    res.sample(dict(example_pairs=mine[:3], swept=len(mine)))
    return

  # mode == routes
  r = gen.rng(cfg['seed'], 'C13')
  targets = [('verif_canary', 'boom'), ('verif_canary', 'Bomb'), ('verif_canary', 'Slotted'), ('verif_canary', 'sub.boom'),
             ('collections', 'OrderedDict'), ('datetime', 'date'), ('builtins', 'object'), ('builtins', 'getattr'),
             ('__builtin__', 'object'), ('copy_reg', '_reconstructor'), ('copyreg', '_reconstructor'),
             ('__builtin__', 'eval'), ('copy_reg', 'add_extension'), ('__builtin__', 'getattr'), ('builtins', 'eval'),
             ('os', 'getpid'), ('posix', 'getpid'), ('nt', 'getpid'), ('sys', 'modules'), ('__main__', 'x'),
             ('carbon.util', 'SafeUnpickler'), ('carbon.util', 'pickle'), ('pickle', 'loads'), ('_pickle', 'loads'),
             ('verif_canary', 'boom'), ('Verif_Canary', 'boom'), ('verif_canary ', 'boom'), ('', 'boom'),
             ('verif_canary', ''), ('verif_canary.sub', 'boom'), ('os.path', 'join'), ('json.decoder', 'JSONDecoder')]
  # names that are templates for one of python's formatting mini-languages: whoever reports the refusal (exception text,
  # log line) must treat them as text
  for root in ('0', '', 'self', '1', 'exc'):
    for via in ('connectionMade', 'stringReceived', 'find_class', 'loads'):
      fld = '{%s.%s.__globals__[sys].modules[verif_canary].boom}' % (root, via)
      targets += [(fld, 'x'), ('verif_canary', fld)]
  targets += [('%(verif_canary)s %s %d %n', 'boom'), ('verif_canary', '%s%s%s%(x)d'), ('{0!r:>{1}}', '{}{}{}'), ('{', '}'), ('$verif_canary ${x}', '%')]
  for _ in range(60 if cfg['tier'] == 'quick' else 1500):
    targets.append((gen.metric_name(r, nonascii=False, maxseg=2), gen.metric_name(r, nonascii=False, maxseg=1)))
  # sender text echoed by an error that involves no global at all: number literals, persistent ids, unknown opcodes
  for root in ('0', '', 'self'):
    for via in ('connectionMade', 'stringReceived'):
      fld = ('{%s.%s.__globals__[sys].modules[verif_canary].boom}' % (root, via)).encode()
      for k, lit in enumerate((b'L' + fld + b'\n.', b'I' + fld + b'\n.', b'F' + fld + b'\n.', b'P' + fld + b'\n.', b'(I1\nL' + fld + b'L\nt.',
                               b']' + b'S\'' + fld + b'\n.', fld, b'\x80\x02]q\x00(X\x01\x00\x00\x00aL' + fld + b'\ne.')):
        feed(lit, [('verif_canary', 'boom')], 'literal%d/format-field' % k)
        res.count('format_field_literals_fed')
  for mod, name in targets:
    for label, ops in routes_for(mod, name):
      feed(wrap(ops, 0, 'value'), [(mod, name)], 'route/' + label)
      feed(b'\x80\x02' + wrap(ops, 0, 'value'), [(mod, name)], 'route-proto2/' + label)
      feed(b'\x80\x05' + wrap(ops, 0, 'value'), [(mod, name)], 'route-proto5/' + label)
      for depth in (1, 2, 3, 5):
        for style in ('value', 'ts', 'name', 'list'):
          feed(wrap(ops, depth, style), [(mod, name)], 'nested%d-%s/%s' % (depth, style, label))
      # after a valid frame in the same segment
      import pickle
      valid = pickle.dumps([('ok.metric', (1, 2.0))], protocol=2)
      try:
        state['pr'].dataReceived(frame(valid))
      except Exception:
        res.count('listener_exceptions')
      feed(wrap(ops, 1, 'value'), [(mod, name)], 'after-valid/' + label)
      # decode-error paths: a string the utf-8 unpickler cannot decode (or any other erroring item) sits before
      # the global, so that whatever the unpickler does when it hits the error is exercised with a global still to come
      for pi, pre in enumerate(ERROR_PREFIXES):
        feed(pre + b'0' + ops + b'.', [(mod, name)], 'after-undecodable@%d/%s' % (pi, label))
        feed(b'(lp0\n(' + pre + b'(I1\n' + ops + b'tta.', [(mod, name)], 'undecodable-name@%d/%s' % (pi, label))
        feed(b'\x80\x02' + pre + b'0' + ops + b'.', [(mod, name)], 'after-undecodable-proto2@%d/%s' % (pi, label))
      # a complete, harmless pickle first, the global in what follows it inside the same frame (several batches in one
      # frame, trailing data after STOP)
      for pi, first in enumerate((b']' + b'.', b'\x80\x02]q\x00.', pickle.dumps([('ok.metric', (1, 2.0))], protocol=2),
                                  pickle.dumps([('ok.metric', (1, 2.0))], protocol=0), pickle.dumps([], protocol=4), b'N.')):
        feed(first + ops + b'.', [(mod, name)], 'after-complete-pickle@%d/%s' % (pi, label))
        feed(first + wrap(ops, 1, 'value'), [(mod, name)], 'after-complete-pickle-nested@%d/%s' % (pi, label))
        feed(first + first + b'\x80\x02' + ops + b'.', [(mod, name)], 'after-two-pickles@%d/%s' % (pi, label))
      res.count('route_cases')
  # EXT opcodes
  for code, opc in ((0x11, b'\x82\x11'), (0x1234, b'\x83\x34\x12'), (0x7fff0001, b'\x84\x01\x00\xff\x7f')):
    for tail in (b'.', b')R.', b')\x81.'):
      feed(opc + tail, [('verif_canary', 'ext'), ('os', 'getpid')], 'route/EXT%x%s' % (code, tail.hex()))
      feed(wrap(opc + tail[:-1], 2, 'value'), [('verif_canary', 'ext'), ('os', 'getpid')], 'nested2/EXT%x' % code)
  # persistent ids, protocol headers of every version, plain data controls
  for p in (b'Pabc\n.', b'\x80\x05Vx\nQ.', b'(lp0\n.', b'N.', b'I01\n.', b'}.', b'\x8f.', b'\x91.' if False else b').'):
    feed(p, [], 'control')
  import pickle
  for proto in range(0, 6):
    feed(pickle.dumps([('a.b', (1, 2.5)), ('c', (3, 4))], protocol=proto), [], 'control/valid-proto%d' % proto)
  res.sample(dict(targets=targets[:4], routes=[l for l, _ in routes_for('m', 'n')]))


def finalize(merged, tier):
  c = merged['counters']
  out = []
  if not c.get('selftest_monitor_fired'):
    out.append('monitor self-test did not fire')
  if not c.get('daemon_refused_to_start') or not c.get('daemon_started_with_spelling'):
    out.append('configuration spellings: refused=%r started=%r' % (c.get('daemon_refused_to_start'), c.get('daemon_started_with_spelling')))
  if not c.get('pairs_swept') or not c.get('route_cases'):
    out.append('sweep or route cases missing: %r' % c)
  return out


def classify(v):
  return None
