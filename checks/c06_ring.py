"""C06 — consistent hashing is stable, compatible and independent of membership history."""
import itertools

from vlib import gen

PROPERTY = 'C06'
LEVEL = 'exploration'
RULE = ('case = (hash type, ordered node list, membership history of add/remove operations); after every operation '
        'list(ring.get_nodes(key)) is executed for one key per ring position 0..65535 and compared (i) with the '
        'sweep before the operation restricted to the unchanged nodes, (ii) for fresh rings with the reference ring '
        'in /verif/vlib/refs/ring.py, (iii) at the end with a freshly built router over the live destinations in '
        'configuration order; non-trivial = history with >=1 operation on >=2 nodes; distinct = distinct cases')
RULE_MORE = (' Also: replicas colliding on the last ring positions, router-level history independence under REPLICATION_FACTOR 1-3 / DIVERSE_REPLICAS, and a manager mode (DYNAMIC_ROUTER sequences: every datapoint is handed to exactly the destinations the live router names).')
RULE_MORE = RULE_MORE + ' Round 12: names with empty path elements, tags and odd characters at router level.'
RULE = RULE + RULE_MORE
EXHAUSTIVE = {'quick': True, 'thorough': True}
EXHAUSTIVE_OVER = ('ring positions 0..65535 per sweep; all toggle histories of length <=3 over 3-node lists '
                   '(quick: length <=2)')
ASSUMPTIONS = ['mmh3_ch not runnable (mmh3 absent)',
               'reference ring written from the published algorithm (md5[:4] / folded FNV-1a-32, 100 replicas, +1 bump)',
               'clause (iii) is known to fail for colliding replica positions (known finding C06-a); any disagreement '
               'not confined to collision clusters, or where carbon deviates from the published algorithm replayed over '
               'the same history, is reported as a violation']


_top = {}


def top_collision_nodes(hash_type):
  """Two or three nodes (found with the reference hash) that each own a replica on one of the last ring positions."""
  if hash_type in _top:
    return _top[hash_type]
  from vlib.refs import ring as refring
  found = {}
  out = []
  if hash_type == 'fnv1a_ch':
    # the replica key is '<i>-<instance>': hosts sharing an instance name collide on every replica
    for k in range(20000):
      inst = 'i%d' % k
      if any(refring.position(refring.replica_key(('h', inst), i, hash_type), hash_type) >= 65534 for i in range(refring.REPLICAS)):
        out = [('10.1.0.1', inst), ('10.1.0.2', inst), ('10.1.0.3', inst), ('10.1.0.4', 'other')]
        break
  else:
    for k in range(30000):
      node = ('10.%d.%d.%d' % (k // 65536, (k // 256) % 256, k % 256), None if k % 2 else 'a')
      for i in range(refring.REPLICAS):
        p = refring.position(refring.replica_key(node, i, hash_type), hash_type)
        if p >= 65534:
          found.setdefault(p, []).append(node)
      best = [v for v in found.values() if len(v) >= 2]
      if best:
        out = best[0][:3] + [('10.9.9.9', 'z')]
        break
  _top[hash_type] = out
  return out


def node_lists(tier, seed, hash_type):
  r = gen.rng(seed, 'C06', hash_type)
  lists = []
  lists.append([('10.0.0.1', 'a'), ('10.0.0.2', 'b'), ('10.0.0.3', 'c')])
  lists.append([('10.0.0.1', 'a'), ('10.0.0.2', 'a'), ('10.0.0.3', 'b')])      # same instance: fnv1a collides on all replicas
  lists.append([('10.0.0.1', None), ('10.0.0.2', None)])
  lists.append([('h1', 'a'), ('h1', 'b'), ('h2', 'a'), ('h2', 'b'), ('h3', 'a'), ('h3', 'b'), ('h4', 'a'), ('h4', 'b')])
  # replicas colliding on the very last ring positions (65533..65535): the published algorithm parks the bumped entry past
  # the end of the 16-bit key space
  top = top_collision_nodes(hash_type)
  if top:
    lists.append(top)
  n = 2 if tier == 'quick' else 8
  for i in range(n):
    k = r.choice([2, 3, 4, 5, 6, 8])
    ds = gen.dest_set(r, k)
    lists.append([(d[0], d[2]) for d in ds])
  return lists


def histories_for(nodes, tier, r):
  """Histories as lists of node indexes to toggle (remove if live, add otherwise); start = all live."""
  n = len(nodes)
  hs = []
  if n <= 3:
    maxlen = 2 if tier == 'quick' else 3
    for L in range(1, maxlen + 1):
      hs.extend([list(h) for h in itertools.product(range(n), repeat=L)])
    if n >= 2:
      hs.append([0, 1, 1, 0])   # DYNAMIC_ROUTER: down, down, up, up in the other order
      hs.append([0, 1, 0, 1])
  else:
    hs.append([0, 1, 1, 0])
    hs.append([n - 1, 0, 0, n - 1])
    k = 3 if tier == 'quick' else 12
    for _ in range(k):
      L = r.randint(1, 6)
      hs.append([r.randrange(n) for _ in range(L)])
  return hs


def configs(tier, seed):
  cfgs = []
  for ht in ('carbon_ch', 'fnv1a_ch'):
    lists = node_lists(tier, seed, ht)
    for li, nodes in enumerate(lists):
      r = gen.rng(seed, 'C06h', ht, li)
      hs = histories_for(nodes, tier, r)
      nshard = max(1, min(len(hs), (4 if tier == 'quick' else 6)))
      for s in range(nshard):
        part = hs[s::nshard]
        if part:
          cfgs.append(dict(name='%s/list%d/%d' % (ht, li, s), hash_type=ht, nodes=[list(x) for x in nodes],
                           histories=part, check_fresh=(s == 0)))
    for (rf, retries, ncache, nttl) in ((1, 0, 0, 0), (2, 0, 1000, 0), (1, 1, 50, 600)):
      cfgs.append(dict(name='%s/manager/rf%d-r%d-c%d' % (ht, rf, retries, ncache), mode='manager', hash_type=ht, rf=rf, retries=retries, ncache=ncache, nttl=nttl))
  return cfgs


def run_manager(cfg, res):
  """The relay as a whole under DYNAMIC_ROUTER: destinations go down and come back (connection failures, reconnects); every
  datapoint must be handed to exactly the destinations the live router names (which the histories above compare with a
  freshly started relay), whatever the relay may remember about earlier routing decisions."""
  from vlib import relayharness as rh
  ht = cfg['hash_type']
  dests = [('127.0.0.1', 2004, 'a'), ('127.0.0.2', 2004, 'b'), ('127.0.0.3', 2004, 'c'), ('127.0.0.1', 2104, 'd')]
  rl = rh.boot_relay({'RELAY_METHOD': 'consistent-hashing', 'ROUTER_HASH_TYPE': ht, 'DESTINATIONS': ', '.join('%s:%d:%s' % d for d in dests),
                      'DYNAMIC_ROUTER': True, 'DYNAMIC_ROUTER_MAX_RETRIES': cfg['retries'], 'REPLICATION_FACTOR': cfg['rf'],
                      'CACHE_METRIC_NAMES_MAX': cfg['ncache'], 'CACHE_METRIC_NAMES_TTL': cfg['nttl'], 'MAX_QUEUE_SIZE': 1000, 'USE_FLOW_CONTROL': False})
  r = gen.rng(cfg['seed'], 'C06m', cfg['name'])
  weights = dict(arrive=10, conn_made=3, conn_lost=1.5, conn_failed=2.5, adv_next=3, adv_defer=2, adv_60=0.3)
  names = list(weights)
  for case in range(40 if cfg['tier'] == 'quick' else 400):
    nd = r.choice([2, 3, 4])
    s = rh.Seq(rl.ns, dests[:nd])
    # a small name alphabet: the same series are routed again and again across membership changes
    s.name_of = lambda ident: 'series%d' % (ident % 5)
    for _ in range(r.randint(30, 120)):
      s.apply(r.choices(names, [weights[x] for x in names])[0], r.randrange(nd))
      if s.violations:
        break
    res.count('manager_sequences')
    res.count('manager_routing_evaluations', s.counters.get('routing_evaluations', 0))
    res.count('manager_membership_changes', sum(1 for e, _ in s.log if e in ('conn_failed', 'conn_made')))
    for sig, msg in s.violations[:2]:
      if sig.startswith('routing/'):
        res.violation('iii/manager/' + sig, '%s [%s rf=%d retries=%d name cache %d/%d] events=%r' % (msg, ht, cfg['rf'], cfg['retries'], cfg['ncache'], cfg['nttl'], s.log[-40:]),
                      dict(events=s.log, cfg=cfg), case=dict(events=s.log))
    res.case(repr(s.log), nontrivial=True)


def sweep(ring, table):
  out = []
  for key in table:
    out.append(tuple(ring.get_nodes(key)))
  return out


def run_config(cfg, res):
  if cfg.get('mode') == 'manager':
    return run_manager(cfg, res)
  from vlib import boot
  from vlib.refs import ring as refring
  ht = cfg['hash_type']
  ns = boot.boot('carbon-relay', {'RELAY_METHOD': 'consistent-hashing', 'ROUTER_HASH_TYPE': ht,
                                  'DESTINATIONS': '127.0.0.1:2004:a', 'REPLICATION_FACTOR': 8, 'DIVERSE_REPLICAS': False},
                 files={'relay-rules.conf': '[default]\ndefault = true\ndestinations = 127.0.0.1:2004:a\n'})
  from carbon.routers import DatapointRouter
  table = refring.key_table(ht)
  nodes = [tuple(x) for x in cfg['nodes']]
  ports = {n: 2004 + i for i, n in enumerate(nodes)}
  r = gen.rng(cfg['seed'], 'C06names')
  names = [gen.metric_name(r) for _ in range(200)]
  # names as clients really send them: empty path elements (an empty prefix or host name), tags, odd characters - the ring is
  # asked about the name as received, byte for byte
  names = ['.cpu.load', 'servers..cpu.load', 'a...b', '..a.b', 'a.b.', '.', 'cpu.load;dc=a;host=b', 'cpu.load;host=b;dc=a', 'Cpu.Load', ' cpu.load',
            'cpu.load ', 'cpu..load;t=.x', '\ufeffcpu.load', 'a/b.c', '~a.b'] + names

  from carbon.util import parseDestinations

  def dest(n):
    # through the daemon's own DESTINATIONS parser (what setupRelayProcessor does with the configured strings)
    host = '[%s]' % n[0] if ':' in n[0] else n[0]
    text = '%s:%d' % (host, ports[n]) + (':%s' % n[1] if n[1] is not None else '')
    (d,) = parseDestinations([text])
    return d

  def fresh_router(live_in_order, rf=8, diverse=False):
    ns.settings['REPLICATION_FACTOR'] = rf
    ns.settings['DIVERSE_REPLICAS'] = diverse
    rt = DatapointRouter.plugins['consistent-hashing'](ns.settings)
    ns.settings['REPLICATION_FACTOR'] = 8
    ns.settings['DIVERSE_REPLICAS'] = False
    for n in live_in_order:
      rt.addDestination(dest(n))
    return rt

  REPLICA_SETTINGS = [(1, True), (2, True), (3, True), (2, False)]

  def ref_sweep(ref):
    return [tuple(ref.lookup_pos(p)) for p in range(65536)]

  # (ii) fresh ring vs reference, for the configured order
  if cfg.get('check_fresh'):
    rt = fresh_router(nodes)
    ref = refring.RefRing(nodes, ht)
    covered = len(set(rt.ring.compute_ring_position(k) for k in table))
    res.maxc('max_positions_covered', covered)
    if covered < 65536:
      res.inconc('key table covers only %d positions with the real hash' % covered)
    real = sweep(rt.ring, table)
    exp = ref_sweep(ref)
    res.count('sweeps', 1)
    res.count('lookups', 65536)
    bad = [p for p in range(65536) if real[p] != exp[p]]
    if bad:
      res.violation('ii/fresh-vs-reference/%s' % ht,
                    'fresh ring over %r differs from the published %s algorithm at %d positions, e.g. position %d: '
                    'carbon %r vs reference %r' % (nodes, ht, len(bad), bad[0], real[bad[0]], exp[bad[0]]),
                    dict(nodes=nodes, position=bad[0]))
    for nm in names:
      got = list(rt.ring.get_nodes(nm))
      if got != ref.lookup(nm):
        res.violation('ii/fresh-vs-reference-names/%s' % ht, 'name %r: carbon %r vs reference %r' % (nm, got, ref.lookup(nm)))
        break
      g1 = rt.ring.get_node(nm)
      if g1 != got[0]:
        res.violation('ii/get_node-vs-get_nodes/%s' % ht, 'name %r: get_node %r but get_nodes starts with %r' % (nm, g1, got[0]))
        break
    res.case(dict(n=cfg['name'], fresh=1), nontrivial=len(nodes) >= 2)

  for hist in cfg['histories']:
    rt = fresh_router(nodes)
    ref = refring.RefRing(nodes, ht)
    live = list(nodes)
    before = sweep(rt.ring, table)
    res.count('sweeps', 1)
    ops = []
    ok = True
    # the same history applied to routers running with the replica settings a relay would use
    shadows = {rs: fresh_router(nodes, *rs) for rs in REPLICA_SETTINGS}
    for idx in hist:
      x = nodes[idx]
      for sh in shadows.values():
        (sh.removeDestination if x in live else sh.addDestination)(dest(x))
      if x in live:
        rt.removeDestination(dest(x))
        ref.remove(x)
        live.remove(x)
        ops.append(['remove', list(x)])
      else:
        rt.addDestination(dest(x))
        ref.add(x)
        live.append(x)
        ops.append(['add', list(x)])
      after = sweep(rt.ring, table)
      res.count('sweeps', 1)
      res.count('lookups', 65536)
      res.count('clause_i_evaluations', 65536)
      # (i) minimal disruption
      for p in range(65536):
        b = before[p]
        a = after[p]
        if b == a:
          continue
        if tuple(n for n in b if n != x) != tuple(n for n in a if n != x):
          res.violation('i/disruption/%s' % ops[-1][0],
                        '%s of %r changed the order of staying nodes at position %d: %r -> %r (history %r over %r, %s)'
                        % (ops[-1][0], x, p, b, a, ops, nodes, ht), dict(nodes=nodes, ops=ops, position=p),
                        case=dict(hist=hist))
          ok = False
          break
      # every live node must appear exactly once in every preference list
      liveset = set(live)
      for p in range(0, 65536, 257):
        if set(after[p]) != liveset or len(after[p]) != len(liveset):
          res.violation('i/preference-list-malformed',
                        'after %r preference list at %d is %r, live nodes %r' % (ops, p, after[p], live),
                        dict(nodes=nodes, ops=ops, position=p))
          ok = False
          break
      before = after
      if not ok:
        break
    if ok:
      # (iii) history independence: compare with a freshly started relay over the live nodes in configuration order
      order = [n for n in nodes if n in live]
      fr = fresh_router(order)
      fresh = sweep(fr.ring, table)
      res.count('sweeps', 1)
      res.count('clause_iii_evaluations', 65536)
      bad = [p for p in range(65536) if fresh[p] != before[p]]
      res.count('histories')
      if bad:
        res.count('histories_with_iii_disagreement')
        # classification data for the known finding C06-a
        hist_entries = sorted((e[0], tuple(e[1])) for e in rt.ring.ring)
        fresh_entries = sorted((e[0], tuple(e[1])) for e in fr.ring.ring)
        ref_hist_entries = sorted(ref.entries)
        follows_published = (hist_entries == ref_hist_entries)
        clusters = collision_clusters(nodes, ht, refring)
        diff = set(hist_entries) ^ set(fresh_entries)
        confined = all(e[0] in clusters for e in diff)
        sig = 'iii/history-dependence/%s/%s' % ('published-algorithm' if follows_published else 'deviates-from-published',
                                                 'collision-confined' if (confined and clusters) else 'not-collision-confined')
        res.violation(sig,
                      'after history %r over %r (%s) routing differs from a fresh relay with live nodes %r at %d '
                      'positions, e.g. %d: history %r vs fresh %r; entry differences: %r' % (
                        ops, nodes, ht, order, len(bad), bad[0], before[bad[0]], fresh[bad[0]], sorted(diff)[:6]),
                      dict(nodes=nodes, ops=ops, position=bad[0], follows_published=follows_published,
                           confined=confined, nclusters=len(clusters)), case=dict(hist=hist))
      # the relay's own answer (REPLICATION_FACTOR / DIVERSE_REPLICAS applied) must be that of a freshly started relay too
      if not bad:
        for rs, sh in shadows.items():
          frs = fresh_router(order, *rs)
          for nm in names[:120]:
            a, b = list(sh.getDestinations(nm)), list(frs.getDestinations(nm))
            res.count('router_level_iii_evaluations')
            if a != b:
              res.violation('iii/router-level/rf%d-%s' % (rs[0], 'diverse' if rs[1] else 'plain'),
                            'after history %r over %r (%s) the router (REPLICATION_FACTOR=%d, DIVERSE_REPLICAS=%s) sends %r to %r, a fresh '
                            'relay with live nodes %r sends it to %r' % (ops, nodes, ht, rs[0], rs[1], nm, a, order, b),
                            dict(nodes=nodes, ops=ops, name=nm, rf=rs[0], diverse=rs[1]), case=dict(hist=hist))
              break
      # router level agreement on a sample of names (RF = all)
      for nm in names[:50]:
        a = list(rt.getDestinations(nm))
        if [(d[0], d[2]) for d in a] != list(rt.ring.get_nodes(nm))[:8]:
          res.violation('router-vs-ring', 'getDestinations %r disagrees with ring %r' % (a, list(rt.ring.get_nodes(nm))))
          break
    res.case(dict(n=cfg['name'], h=hist), nontrivial=(len(nodes) >= 2 and len(hist) >= 1))
    res.sample(dict(hash_type=ht, nodes=nodes, ops=ops))


def collision_clusters(nodes, ht, refring):
  """Positions belonging to a maximal run of consecutive raw-or-bumped positions containing a raw collision."""
  raw = {}
  for n in nodes:
    for i in range(refring.REPLICAS):
      p = refring.position(refring.replica_key(n, i, ht), ht)
      raw.setdefault(p, []).append(n)
  occupied = set(raw)
  coll = [p for p, v in raw.items() if len(v) > 1]
  # a raw position adjacent to a collision run can be pushed as well: grow clusters over consecutive occupied positions
  clusters = set()
  for p in coll:
    k = len(raw[p])
    q = p
    # positions p .. p+k-1 are taken by the colliding replicas; anything already sitting there is pushed further
    need = k
    while need > 0 or q in occupied:
      clusters.add(q)
      if q in occupied and q != p:
        need += len(raw[q])
      need -= 1
      q += 1
      if q > p + 400:
        break
  return clusters


def classify(v):
  if v['sig'] == 'iii/history-dependence/published-algorithm/collision-confined':
    return 'C06-a'
  return None


def finalize(merged, tier):
  out = []
  c = merged['counters']
  if not c.get('clause_i_evaluations') or not c.get('clause_iii_evaluations'):
    out.append('a clause was never evaluated: %r' % c)
  return out
