"""C15 — what a relay's client encodes is what the next daemon's listener decodes."""
import math
import pickle
import struct

from vlib import gen

PROPERTY = 'C15'
LEVEL = 'exploration'
RULE = ('case = (client protocol, MAX_DATAPOINTS_PER_MESSAGE, queue of n uniquely named datapoints); the queue is sent by the '
        'real CarbonClientFactory + client protocol on a StringTransport driven by a fake reactor until empty, the bytes are '
        'fed (whole and re-segmented) into the real listener protocol and the recorder is compared with what was queued '
        '(pickle: identical; line: name identical, timestamp floor, |dvalue| <= 5e-11 or 1 ulp; count and order preserved); '
        'non-trivial = queue with >=2 datapoints; distinct = (protocol, batch size, queue)')
RULE_MORE = (" Also: 30000-50000 datapoints per message, connection quality resets followed onto the new connection, the next daemon's flow control pausing its listener mid-segment, the relay closing in the middle of its stream.")
RULE_MORE = RULE_MORE + ' Round 11: names with invisible characters in front, inside and at the end.'
RULE_MORE = RULE_MORE + ' Round 12: the listening daemon has a MAX_DATAPOINTS_PER_MESSAGE of its own.'
RULE = RULE + RULE_MORE
EXHAUSTIVE = {'quick': False, 'thorough': False}
EXHAUSTIVE_OVER = ''
ASSUMPTIONS = ['protobuf client/listener pair not runnable (google.protobuf absent)',
               'integers are compared after float(); timestamps in [0, 2^32)',
               'line protocol tolerance is evaluated in exact arithmetic as 5e-11 (decimal rounding of %.10f) plus one ulp (re-parsing)']


def configs(tier, seed):
  n = 4 if tier == 'quick' else 8
  cfgs = [dict(name='%s/%d' % (p, s), proto=p, shard=s) for p in ('pickle', 'line') for s in range(n)]
  # big batches: MAX_DATAPOINTS_PER_MESSAGE in the tens of thousands on the relay, PICKLE_RECEIVER_MAX_LENGTH raised
  # accordingly on the next daemon (what carbon.conf.example says the setting is for)
  cfgs.append(dict(name='pickle/big', proto='pickle', shard=77, big=True))
  # USE_RATIO_RESET: the relay resets a connection that sent too little of what was received in the last statistics
  # period; what it was sending at that moment still has to arrive (over the old or the new connection)
  for p in ('pickle', 'line'):
    cfgs.append(dict(name='%s/ratio-reset' % p, proto=p, shard=55, ratio=True))
  # TIME_TO_DEFER_SENDING = 0 ("send as fast as possible") with a backlog of thousands of small messages
  for p in ('pickle', 'line'):
    cfgs.append(dict(name='%s/defer0' % p, proto=p, shard=66, defer0=True))
  return cfgs


def ulp_close(a, b):
  if a == b:
    return True
  if math.isinf(a) or math.isinf(b):
    return False
  # '%.10f' rounds the exact value to a multiple of 1e-10 (error <= 5e-11 in exact arithmetic); parsing that decimal
  # back adds up to half a unit in the last place.  The bound is therefore evaluated exactly, as 5e-11 plus one ulp.
  from fractions import Fraction
  d = abs(Fraction(a) - Fraction(b))
  return d <= Fraction(5, 10 ** 11) + Fraction(math.ulp(a))


def run_config(cfg, res):
  from vlib import relayharness as rh, proto
  rl = rh.boot_relay({'RELAY_METHOD': 'constant', 'DESTINATIONS': '127.0.0.1:2004:a', 'DESTINATION_PROTOCOL': cfg['proto'],
                      'MAX_QUEUE_SIZE': 100000, 'USE_FLOW_CONTROL': False,
                      'PICKLE_RECEIVER_MAX_LENGTH': (8 * 2 ** 20 if cfg.get('big') else 2 ** 20),
                      'TIME_TO_DEFER_SENDING': (0 if cfg.get('defer0') else 0.0001)})
  import carbon.protocols as P
  from carbon import events
  rec = proto.install_recorder()
  # this process plays both the relay (client side) and the next daemon (listener side): detach the relay pipeline from
  # the listener so that ingested datapoints are recorded instead of being relayed again
  from carbon import pipeline
  events.metricReceived.removeHandler(pipeline.run_pipeline)
  settings = rl.ns.settings
  fake = rl.fake
  r = gen.rng(cfg['seed'], 'C15', cfg['name'])
  (dest, factory), = rl.factories().items()
  conn = fake.connectors[0]
  import carbon.client as client
  client.time = lambda: 1.0e9 + fake.seconds()      # lastResetTime / MIN_RESET_INTERVAL on the virtual clock
  transport = conn.h_connection_made()
  listener = P.MetricPickleReceiver if cfg['proto'] == 'pickle' else P.MetricLineReceiver
  ncases = 500 if cfg['tier'] == 'quick' else 8000
  if cfg.get('big'):
    ncases = 2 if cfg['tier'] == 'quick' else 6
  if cfg.get('defer0'):
    ncases = 3 if cfg['tier'] == 'quick' else 10
  pool, dppool = [], []
  for case in range(ncases):
    batch = r.choice([1, 2, 3, 7, 500])
    n = r.choice([0, 1, 2, 3, 5, 7, 8, 14, 21, 40])
    if cfg.get('big'):
      batch, n = r.choice([30000, 50000]), r.choice([45000, 60000])
      res.count('big_batches')
    if cfg.get('defer0'):
      batch, n = r.choice([1, 2, 3, 7]), r.choice([1500, 3000, 5000])
      res.count('long_backlogs')
    settings['MAX_DATAPOINTS_PER_MESSAGE'] = batch
    queued = []
    share = r.random() < 0.5          # recurring series: the very same name / datapoint objects show up in several messages
    for i in range(n):
      if share and pool and r.random() < 0.8:
        if r.random() < 0.3 and dppool:
          queued.append(r.choice(dppool))
          continue
        name = r.choice(pool)
      else:
        name = 'q%d.%s' % (i, gen.metric_name(r, nonascii=r.random() < 0.5, punct=r.random() < 0.3))
        if r.random() < 0.06:
          name = r.choice(gen.ODD_NAMES) + ('' if r.random() < 0.5 else '.q%d' % i)      # invisible characters, also in front
        if len(pool) < 12:
          pool.append(name)
      v = gen.value(r)
      if r.random() < 0.05:
        v = r.choice([True, False])
      t = r.randrange(0, 2 ** 32)
      if r.random() < 0.4:
        t = t + r.choice([0.0, 0.5, 0.999999, 0.25])
        if t >= 2 ** 32:
          t = float(2 ** 32 - 1)
      queued.append((name, (t, v)))
      if len(dppool) < 8:
        dppool.append(queued[-1])
    transport.clear()
    old_data = b''
    if cfg.get('ratio'):
      # a statistics period in which much was received and little sent to this destination (real recordMetrics(); the
      # self-metrics it generates are kept out of this connection)
      from carbon import instrumentation
      import carbon.client as client
      settings['USE_RATIO_RESET'] = True
      settings['MIN_RESET_STAT_FLOW'] = 1
      settings['MIN_RESET_INTERVAL'] = r.choice([0, 0, 121])
      instrumentation.stats['metricsReceived'] = r.choice([1000, 5])
      hs = events.metricGenerated.handlers[:]
      del events.metricGenerated.handlers[:]
      try:
        instrumentation.recordMetrics()
      finally:
        events.metricGenerated.handlers[:] = hs
      if r.random() < 0.5:
        fake.advance(122)
      res.count('ratio_reset_cases')
    # the sending transport's buffer fills up in the middle of a message every now and then (slow receiver): it pauses
    # its producer from inside write(), the harness lets it drain and resumes
    transport.hw = r.choice([None, None, 40, 200, 1000, 4096])
    transport.unflushed = 0
    if cfg.get('defer0') and case % 2 == 0 and conn.state == 'connected':
      conn.h_connection_lost()          # the destination is away while the backlog builds up; it is flushed on reconnect
      res.count('backlogs_built_while_disconnected')
    for name, dp in queued:
      rl.manager.sendDatapoint(name, dp)
    def drive_client():
      nonlocal transport, old_data
      guard = 0
      while (factory.queueSize or conn.state != 'connected' or conn.protocol.paused) and guard < 20000:
        if conn.state == 'connected' and transport.disconnecting:
          # the client asked for the connection to be closed (quality reset): what it wrote is flushed, then the connection
          # goes down and the reconnecting factory brings up a new one
          old_data += transport.value()
          conn.h_connection_lost()
          res.count('connection_resets_by_the_client')
        if conn.state == 'disconnected':
          fake.advance(60)
        if conn.state == 'connecting':
          transport = conn.h_connection_made()
          transport.hw = None
        if conn.protocol is None:
          guard += 1
          continue
        if conn.protocol.paused:
          transport.flush()
          conn.protocol.resumeProducing()
          res.count('mid_message_pauses')
        fake.advance(settings.TIME_TO_DEFER_SENDING)
        guard += 1
    guard = 0
    try:
      drive_client()
    except Exception as e:
      res.violation('%s/client-raised/%s' % (cfg['proto'], type(e).__name__), 'the relay\'s client raised %s while sending %d queued datapoints (batch %d): %.200r' % (
        type(e).__name__, n, batch, e), dict(batch=batch, n=n))
      # a fresh connection for the next case
      if conn.state == 'connected':
        conn.h_connection_lost()
      factory.queue.clear()
      fake.advance(120)
      if conn.state == 'connecting':
        transport = conn.h_connection_made()
      continue
    pass
    fake.advance(settings.TIME_TO_DEFER_SENDING)
    if factory.queueSize:
      res.violation('%s/queue-not-drained' % cfg['proto'], 'queue still holds %d datapoints after %d timer steps' % (factory.queueSize, guard))
      continue
    if conn.state == 'connected' and transport.disconnecting:
      old_data += transport.value()
      conn.h_connection_lost()
      fake.advance(60)
      if conn.state == 'connecting':
        transport = conn.h_connection_made()
      res.count('connection_resets_by_the_client')
    data = old_data + transport.value()
    res.count('bytes_transferred', len(data))
    # message structure: number of datapoints per message never exceeds MAX_DATAPOINTS_PER_MESSAGE
    if cfg['proto'] == 'pickle':
      try:
        msgs = rh.decode_pickle_stream(data)
      except Exception as e:
        res.violation('pickle/message-not-self-contained', 'a message produced by the pickle client cannot be unpickled on its own: %r (batch %d, %d queued)' % (e, batch, n),
                      dict(data=data[:600].hex(), batch=batch))
        msgs = []
      if msgs and (any(len(m) > batch for m in msgs) or sum(len(m) for m in msgs) != n):
        res.violation('pickle/batching', 'message sizes %r for batch limit %d and %d queued' % ([len(m) for m in msgs], batch, n))
      res.count('messages', len(msgs))
    segmentations = [[data]]
    if len(data) > 2:
      pos = sorted(set(r.randrange(1, len(data)) for _ in range(5)))
      segmentations.append(proto.cut(data, pos))
      step = 13 if len(data) < 200000 else 65521
      segmentations.append([data[i:i + step] for i in range(0, len(data), step)])
    # the relay goes away in the middle of its stream (orderly close): what had arrived completely is ingested, nothing else
    if len(data) > 3 and queued:
      for _ in range(2):
        k = r.randrange(1, len(data))
        if cfg['proto'] == 'line':
          done = data[:k].count(b'\n')
        else:
          done, pos = 0, 0          # frame boundaries from the stream itself
          while pos + 4 <= len(data):
            ln_ = struct.unpack('!I', data[pos:pos + 4])[0]
            if pos + 4 + ln_ > k:
              break
            done += len(pickle.loads(data[pos + 4:pos + 4 + ln_]))
            pos += 4 + ln_
        o = proto.tcp_session(listener, [data[:k]], rec)
        res.count('listener_sessions_cut_short')
        got = o['got']
        if o['exc'] is not None or len(got) != done or any(g[0] != q[0] for g, q in zip(got, queued)):
          res.violation('%s/sender-closed-mid-stream' % cfg['proto'], 'first %d of %d bytes delivered, then an orderly close: %d datapoints complete, listener ingested %r (exc %r)' % (
            k, len(data), done, got[-2:], o['exc']), dict(data=data[:400].hex(), k=k))
          break
    sessions = [(segs, None) for segs in segmentations]
    if len(queued) >= 2:
      # the next daemon's flow control pauses its listeners while one of these segments is being read
      sessions.append((r.choice(segmentations), r.randrange(1, len(queued) + 1)))
    # the next daemon has a configuration of its own: its MAX_DATAPOINTS_PER_MESSAGE (which governs what *it* sends) need not
    # be the relay's
    own = settings['MAX_DATAPOINTS_PER_MESSAGE']
    for si, (segs, pause_at) in enumerate(sessions):
      settings['MAX_DATAPOINTS_PER_MESSAGE'] = own if (case + si) % 2 == 0 else r.choice([1, 2, max(1, batch // 3), 7, 500, batch * 2])
      if pause_at is None:
        o = proto.tcp_session(listener, segs, rec)
      else:
        settings['USE_FLOW_CONTROL'] = True
        try:
          o = proto.tcp_session_with_pause(listener, segs, rec, pause_at)
        finally:
          settings['USE_FLOW_CONTROL'] = False
        res.count('listener_sessions_paused_mid_segment')
      res.count('listener_sessions')
      wit = dict(queued=[repr(q) for q in queued[:10]], batch=batch, data=data[:400].hex())
      if o['exc'] is not None or o['disconnecting']:
        res.violation('%s/listener-rejected' % cfg['proto'], 'listener raised %r / closed=%s on bytes produced by the client' % (o['exc'], o['disconnecting']), wit)
        break
      got = o['got']
      if len(got) != len(queued):
        res.violation('%s/count' % cfg['proto'], '%d queued, %d ingested (batch %d); first queued %r' % (len(queued), len(got), batch, queued[:2]), wit)
        break
      bad = None
      for (qn, (qt, qv)), (gn, (gt, gv)) in zip(queued, got):
        if gn != qn:
          bad = ('name-or-order', 'queued %r ingested as %r' % (qn, gn))
          break
        if cfg['proto'] == 'pickle':
          if gt != float(qt) or struct.pack('>d', gv) != struct.pack('>d', float(qv)):
            bad = ('value', 'queued %r ingested as %r' % ((qn, (qt, qv)), (gn, (gt, gv))))
            break
        else:
          if gt != math.floor(qt):
            bad = ('timestamp', 'queued timestamp %r ingested as %r' % (qt, gt))
            break
          if not ulp_close(float(qv), gv):
            bad = ('value', 'queued value %r ingested as %r (delta %r)' % (qv, gv, gv - float(qv) if not math.isinf(gv) else None))
            break
      if bad:
        res.violation('%s/%s' % (cfg['proto'], bad[0]), bad[1] + ' (batch %d, the listening daemon has MAX_DATAPOINTS_PER_MESSAGE = %s)' % (
          batch, settings['MAX_DATAPOINTS_PER_MESSAGE']), wit)
        break
    res.case(dict(p=cfg['proto'], b=batch, q=repr(queued)), nontrivial=n >= 2)
    res.sample(dict(proto=cfg['proto'], batch=batch, n=n, first=[repr(q) for q in queued[:2]], wire=data[:80].decode('latin1')), cap=2)


def finalize(merged, tier):
  c = merged['counters']
  return [] if c.get('listener_sessions') and c.get('messages') and c.get('mid_message_pauses') else ['no listener sessions, messages or mid-message pauses observed']


def classify(v):
  return None
