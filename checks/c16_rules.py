"""C16 — rule-based and aggregation-aware routing follow their rule files."""
import os

from vlib import gen

PROPERTY = 'C16'
LEVEL = 'exploration'
RULE = ('rules mode: case = (generated relay-rules.conf with 1..6 pattern sections, continue flags, default placement, '
        'default=false decoys, destination lists; configured subset; metric names) -> set(RelayRulesRouter.getDestinations) '
        'vs an evaluator written from the documented format.  aggregated mode: case = (generated aggregation-rules.conf, '
        'destination set, RF, DIVERSE_REPLICAS, hash type, names) -> set(router.getDestinations) vs union over the '
        'reference matcher\'s aggregate names of the reference ring lookup; inputs of one aggregate must share their '
        'destination set; non-trivial = name matching >=1 rule; distinct = (file, configured set, name)')
RULE_MORE = (' Relay files have up to 16 sections, patterns use upper-case escapes and negated classes; aggregated mode also runs with name caches and several rules over one input pattern.')
RULE_MORE = RULE_MORE + ' Round 11: empty relay-rule patterns.'
RULE = RULE + RULE_MORE
EXHAUSTIVE = {'quick': False, 'thorough': False}
EXHAUSTIVE_OVER = ''
ASSUMPTIONS = ['literal parts of aggregation patterns are restricted to [a-z0-9_-] (the documented language has no escaping)',
               'relay patterns are case-insensitive regex searches as in the shipped example file; % is not generated '
               '(ConfigParser interpolation)']

DESTS = [('10.0.0.1', 2004, 'a'), ('10.0.0.1', 2104, 'b'), ('10.0.0.2', 2004, 'a'), ('10.0.0.3', 2004, None),
         ('hostx', 2014, 'c'), ('::1', 2004, 'v6')]
REL_PATTERNS = ['', '^servers\\.', 'cpu', '\\.count$', '^a', 'web\\d+', '.*', 'PROD', 'x|y', '^$', 'mem|disk', '^carbon\\.', 'q{2}', '[0-9]$',
                # negated classes, upper-case escapes and anchors (what re.I leaves alone), classes, look-aheads
                '^servers\\.\\D+\\.', '^\\S+\\.cpu', '\\Aprod\\.', '\\.x\\Z', '\\Bb\\B', '^[^\\W_]+$', '\\W', '^(?!servers)\\w+\\.', '[A-Z]{2}', '(?-i:PROD)', 'disk\\.\\d\\Z']
REL_NAMES = ['servers.web1.cpu.idle', 'servers.db.mem.free', 'a.b.count', 'carbon.agents.h.cpuUsage', 'prod.api.hits', 'PROD.x',
             'x', 'y.z', 'nothing', 'web22', 'qq', 'disk.9', 'Servers.Web1', '', 'é.cpu']


def configs(tier, seed):
  n = 3 if tier == 'quick' else 8
  cfgs = [dict(name='rules/%d' % s, mode='rules', shard=s) for s in range(n)]
  for ht in ('carbon_ch', 'fnv1a_ch'):
    for router in ('aggregated-consistent-hashing', 'fast-aggregated-hashing'):
      for s in range(1 if tier == 'quick' else 3):
        cfgs.append(dict(name='%s/%s/%d' % (router, ht, s), mode='agg', router=router, hash_type=ht, shard=s))
      # the aggregator's name-lookup cache (CACHE_METRIC_NAMES_MAX / _TTL, as suggested in carbon.conf.example)
      if tier == 'thorough' or ht == 'carbon_ch':
        cfgs.append(dict(name='%s/%s/namecache' % (router, ht), mode='agg', router=router, hash_type=ht, shard=9,
                         names_max=1000 if 'fast' in router else 3, names_ttl=0 if 'fast' in router else 600))
  return cfgs


def fmt_dest(d):
  h, p, i = d
  if ':' in h:
    h = '[%s]' % h
  return '%s:%d%s' % (h, p, (':' + i) if i else '')


def gen_relay_file(r):
  nsec = r.choice([1, 2, 3, 4, 5, 6, 6, 8, 9, 12, 16])
  secs = []
  for i in range(nsec):
    dests = r.sample(DESTS, r.randint(1, 3))
    body = ['pattern = %s' % r.choice(REL_PATTERNS), 'destinations = %s' % ', '.join(fmt_dest(d) for d in dests)]
    c = r.random()
    if c < 0.35:
      body.append('continue = %s' % r.choice(['true', 'True', 'yes', '1', 'on']))
    elif c < 0.5:
      body.append('continue = %s' % r.choice(['false', 'no', '0', 'off']))
    r.shuffle(body)
    secs.append('[rule%d]\n%s\n' % (i, '\n'.join(body)))
  default = '[default]\ndefault = true\ndestinations = %s\n' % ', '.join(fmt_dest(d) for d in r.sample(DESTS, r.randint(1, 2)))
  secs.insert(r.choice([0, len(secs), r.randint(0, len(secs))]), default)
  if r.random() < 0.3:
    secs.insert(r.randint(0, len(secs)), '[decoy]\ndefault = false\ndestinations = %s\n' % fmt_dest(r.choice(DESTS)))
  if r.random() < 0.3:
    secs.insert(r.randint(0, len(secs)), '# a comment line\n')
  return '\n'.join(secs)


LITS = ['app', 'prod', 'stage', 'web', 'count', 'hits', 'total', 'sum', 'all', 'x', 'cpu', 'srv-1', 'a_b']


def gen_agg_rules(r):
  """Returns text; output templates get distinct literal heads so that two rules never claim one aggregate."""
  from vlib.refs import aggrules
  lines = []
  earlier = []
  for i in range(r.randint(1, 4)):
    nparts = r.randint(1, 4)
    parts, fields = [], []
    if earlier and r.random() < 0.3:
      # several rules over the very same input pattern (sum / avg / max of one set of series), different outputs
      parts, fields = r.choice(earlier)
      nparts = 0
    for p in range(nparts):
      c = r.random()
      if c < 0.4:
        parts.append(r.choice(LITS))
      elif c < 0.55:
        parts.append('*')
      elif c < 0.65:
        parts.append(r.choice(LITS) + '*')
      elif c < 0.9:
        f = 'f%d' % len(fields)
        fields.append(f)
        parts.append(r.choice(['', 'web', 'srv-']) + '<%s>' % f + r.choice(['', '', '_x']))
      else:
        f = 'f%d' % len(fields)
        fields.append(f)
        parts.append('<<%s>>' % f)
    earlier.append((list(parts), list(fields)))
    used = [f for f in fields if r.random() < 0.7]
    out = 'agg%d.' % i + '.'.join(['<%s>' % f for f in used] + [r.choice(LITS)])
    lines.append('%s (%d) = %s %s' % (out, r.choice([10, 60]), r.choice(aggrules.METHODS), '.'.join(parts)))
  if r.random() < 0.3:
    lines.insert(0, '# comment')
  return '\n'.join(lines) + '\n'


def names_for(rules_text, r, n):
  """Names that hit, miss and nearly miss the rules (built from the rule patterns themselves)."""
  from vlib.refs import aggrules
  out = []
  rules = aggrules.parse_rules(rules_text)
  fillers = ['web1', 'a', 'db.x', 'prod', 'srv-9_x', 'web', 'zz', 'appx', 'é', 'a.b.c', 'srv-', 'web_x', 'count']
  for _ in range(n):
    rule = r.choice(rules)
    parts = []
    for part in rule['input'].split('.'):
      s = part
      while '<<' in s:
        i, j = s.find('<<'), s.find('>>')
        s = s[:i] + r.choice(fillers) + s[j + 2:]
      while '<' in s and s.find('>') > s.find('<'):
        i, j = s.find('<'), s.find('>')
        s = s[:i] + r.choice(fillers) + s[j + 1:]
      s = s.replace('*', r.choice(['', 'k', 'zz9', 'a.b']))
      parts.append(s)
    name = '.'.join(parts)
    c = r.random()
    if c < 0.15:
      name = 'pre.' + name
    elif c < 0.3:
      name = name + '.post'
    elif c < 0.4:
      name = name + 'x'
    elif c < 0.45:
      name = name.upper()
    out.append(name)
  out += ['unmatched.metric', 'agg0.total', 'x']
  return out


def ref_hash_dests(ring, ports, key, rf, diverse):
  out, used = [], set()
  for (server, inst) in ring.lookup(key):
    if diverse:
      if server in used:
        continue
      used.add(server)
    out.append((server, ports[(server, inst)], inst))
    if len(out) >= rf:
      break
  return out


def run_config(cfg, res):
  from vlib import boot
  from vlib.refs import relayrules, aggrules, ring as refring
  r = gen.rng(cfg['seed'], 'C16', cfg['name'])
  if cfg['mode'] == 'rules':
    ns = boot.boot('carbon-relay', {'RELAY_METHOD': 'rules', 'DESTINATIONS': ', '.join(fmt_dest(d) for d in DESTS)},
                   files={'relay-rules.conf': '[default]\ndefault = true\ndestinations = 10.0.0.1:2004:a\n'})
    from carbon.routers import DatapointRouter
    path = ns.settings['relay-rules']
    for case in range(300 if cfg['tier'] == 'quick' else 4000):
      text = gen_relay_file(r)
      with open(path, 'w') as f:
        f.write(text)
      try:
        router = DatapointRouter.plugins['rules'](ns.settings)
      except Exception as e:
        res.violation('rules/load-failed', 'generated relay rules rejected: %r\n%s' % (e, text))
        continue
      configured = set(r.sample(DESTS, r.randint(0, len(DESTS))))
      for d in configured:
        router.addDestination(d)
      ref = relayrules.load(text)
      for name in REL_NAMES + [gen.metric_name(r) for _ in range(10)]:
        got = list(router.getDestinations(name))
        exp = relayrules.route(ref, configured, name)
        res.count('route_evaluations')
        nontrivial = any(rule['regex'] is not None and rule['regex'].search(name) for rule in ref)
        res.case((text, tuple(sorted(configured, key=repr)), name), nontrivial)
        if not set(got) <= configured:
          res.violation('rules/unconfigured-destination', 'name %r: %r not all configured (%r)\n%s' % (name, got, sorted(configured, key=repr), text),
                        dict(rules=text, name=name))
        elif set(got) != exp:
          kind = 'missing' if exp - set(got) else 'extra'
          res.violation('rules/%s' % kind, 'name %r routed to %r, rule file says %r\n%s' % (name, sorted(set(got), key=repr), sorted(exp, key=repr), text),
                        dict(rules=text, name=name, configured=sorted(configured, key=repr)))
      res.sample(dict(rules=text, configured=sorted(map(repr, configured))), cap=2)
    return

  # aggregated routers
  ht = cfg['hash_type']
  conf = {'RELAY_METHOD': cfg['router'], 'ROUTER_HASH_TYPE': ht, 'DESTINATIONS': '127.0.0.1:2004:a'}
  if cfg.get('names_max'):
    conf['CACHE_METRIC_NAMES_MAX'] = cfg['names_max']
    conf['CACHE_METRIC_NAMES_TTL'] = cfg['names_ttl']
  ns = boot.boot('carbon-relay', conf,
                 files={'aggregation-rules.conf': 'agg.x (10) = sum nothing.matches.this\n',
                        'relay-rules.conf': '[default]\ndefault = true\ndestinations = 127.0.0.1:2004:a\n'})
  from carbon.routers import DatapointRouter
  from carbon.aggregator.rules import RuleManager
  path = ns.settings['aggregation-rules']
  fast = 'fast' in cfg['router']
  mt = 2000
  for case in range(100 if cfg['tier'] == 'quick' else 1200):
    text = gen_agg_rules(r)
    with open(path, 'w') as f:
      f.write(text)
    mt += 10
    os.utime(path, (mt, mt))
    ns.settings['REPLICATION_FACTOR'] = rf = r.choice([1, 1, 2, 3])
    ns.settings['DIVERSE_REPLICAS'] = diverse = r.random() < 0.5
    if RuleManager.read_task.running:
      RuleManager.read_task.stop()
    try:
      router = DatapointRouter.plugins[cfg['router']](ns.settings)   # reads the file through the real RuleManager
    except Exception as e:
      res.violation('agg/load-failed', 'generated aggregation rules rejected: %r\n%s' % (e, text))
      continue
    dests = gen.dest_set(r, r.randint(1, 6))
    for d in dests:
      router.addDestination(d)
    ports = {(d[0], d[2]): d[1] for d in dests}
    rules = aggrules.parse_rules(text)
    if len(RuleManager.rules) != len(rules):
      res.violation('agg/rule-count', '%d rules loaded, file has %d\n%s' % (len(RuleManager.rules), len(rules), text))
      continue
    ref = None if fast else refring.RefRing([(d[0], d[2]) for d in dests], ht)
    by_agg = {}
    for name in names_for(text, r, 40):
      got = list(router.getDestinations(name))
      aggs = [a for a in (aggrules.aggregate_name(rule, name) for rule in rules) if a is not None]
      keys = aggs or [name]
      res.count('agg_route_evaluations')
      res.case((text, tuple(dests), rf, diverse, name), nontrivial=bool(aggs))
      if aggs:
        res.count('names_matching_a_rule')
      # destinations of the hash lookups of the keys, through the real inner hash router (structure) ...
      inner = set()
      for k in keys:
        inner |= set(router.hash_router.getDestinations(k))
      wit = dict(rules=text, name=name, dests=[list(d) for d in dests], rf=rf, diverse=diverse)
      if set(got) != inner:
        res.violation('agg/not-routed-by-aggregate-name/%s' % ('matched' if aggs else 'unmatched'),
                      'name %r (aggregates %r) routed to %r but the hash destinations of those keys are %r\n%s' % (
                        name, aggs, sorted(set(got), key=repr), sorted(inner, key=repr), text), wit)
        continue
      # ... and through the reference ring (consistent-hashing flavour only)
      if ref is not None:
        exp = set()
        for k in keys:
          exp |= set(ref_hash_dests(ref, ports, k, rf, diverse))
        if set(got) != exp:
          res.violation('agg/differs-from-reference/%s' % ('matched' if aggs else 'unmatched'),
                        'name %r (aggregates %r): carbon %r, reference %r\n%s' % (name, aggs, sorted(set(got), key=repr), sorted(exp, key=repr), text), wit)
          continue
      if len(set(got)) != len(got):
        res.violation('agg/repeated', 'name %r: repeated destination in %r' % (name, got), wit)
      if len(aggs) >= 1:
        by_agg.setdefault(tuple(sorted(aggs)), []).append((name, frozenset(got)))
    for aggs, lst in by_agg.items():
      res.count('aggregate_groups')
      if len(set(s for _, s in lst)) > 1:
        res.violation('agg/inputs-of-one-aggregate-split', 'inputs %r of aggregate(s) %r go to different destination sets' % (lst[:4], aggs),
                      dict(rules=text))
    res.sample(dict(rules=text, dests=[list(d) for d in dests], rf=rf, diverse=diverse), cap=2)
    # the same long-lived router must follow the rules file as it changes under it: rewritten, removed, re-created
    # (RuleManager.read_rules() is what its LoopingCall runs every 10 s)
    if case % 3 == 0:
      seen_names = names_for(text, r, 25)
      for nm in seen_names:
        list(router.getDestinations(nm))                    # routed once under the current rules
      for step in ('rewrite', 'remove', 'recreate'):
        if step == 'remove':
          os.unlink(path)
          text2 = ''
        else:
          text2 = gen_agg_rules(r)
          with open(path, 'w') as f:
            f.write(text2)
          mt += 10
          os.utime(path, (mt, mt))
        RuleManager.read_rules()
        rules2 = aggrules.parse_rules(text2)
        res.count('rule_file_changes_under_a_live_router')
        for nm in seen_names + names_for(text2, r, 10) if text2 else seen_names:
          got = set(router.getDestinations(nm))
          aggs = [a for a in (aggrules.aggregate_name(rule, nm) for rule in rules2) if a is not None]
          exp = set()
          for k in (aggs or [nm]):
            exp |= set(router.hash_router.getDestinations(k))
          if got != exp:
            res.violation('agg/stale-after-rules-change/%s' % step,
                          'after the rules file was %sd, name %r (aggregates %r) is routed to %r instead of %r; old rules %r new rules %r' % (
                            step.rstrip('e'), nm, aggs, sorted(got, key=repr), sorted(exp, key=repr), text, text2), dict(old=text, new=text2, name=nm))
            break


def finalize(merged, tier):
  c = merged['counters']
  out = []
  for k in ('route_evaluations', 'agg_route_evaluations', 'names_matching_a_rule', 'aggregate_groups'):
    if not c.get(k):
      out.append('counter %s is zero' % k)
  return out


def classify(v):
  return None
